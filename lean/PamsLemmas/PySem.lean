/-
Infrastructure for theorems about translated code (`PamsGen/Code.lean`, meaning given by
`PamsModel/Py.lean`):

* `PyNum` for an arbitrary linearly ordered type with uninterpreted arithmetic (`NumOpsC`): the
  comparisons are the order's, `==` is equality, everything else is an opaque function — so a
  theorem proved here holds for the rationals, the reals and (for the order-only part) for the
  finite doubles;
* `nf% e`: the normal form of a closed term, computed by the elaborator; every use is re-checked by
  the kernel through a `rfl` proof (`e = nf% e`), so the elaborator is not trusted;
* simp lemmas that evaluate `BTerm / ITerm / NTerm` under a valuation.

Pattern of a proof that a translated function `f` computes what the model says, for all inputs:
  `Tree.denote_of_paths` reduces the claim to the finitely many paths of the symbolic run of `f`
  on a heap whose numeric fields are atoms; `paths (run …) = nf% …` is checked by `rfl`; each path
  (a conjunction of branch conditions, evaluated under the valuation that assigns the real field
  values to the atoms) leaves a small arithmetic / order-theoretic goal.
-/
import PamsModel.Py
import Mathlib.Order.Defs.LinearOrder
import Mathlib.Order.Basic
import Mathlib.Data.Int.Order.Basic
import Lean

namespace Pams.Py

/-- uninterpreted arithmetic on the price type -/
class NumOpsC (K : Type) where
  add : K → K → K
  sub : K → K → K
  mul : K → K → K
  div : K → K → K
  neg : K → K
  ofInt : Int → K
  floor : K → Int
  ceil : K → Int
  fmod : K → K → K
  exp : K → K
  log : K → K
  sqrt : K → K

@[reducible] instance pyNumOfOrder {K : Type} [LinearOrder K] [o : NumOpsC K] : PyNum K :=
  { add := o.add, sub := o.sub, mul := o.mul, div := o.div, neg := o.neg,
    lt := fun a b => a < b, le := fun a b => a ≤ b,
    zero := o.ofInt 0, one := o.ofInt 1, ofNat := fun n => o.ofInt n,
    decLt := fun a b => inferInstanceAs (Decidable (a < b)),
    decLe := fun a b => inferInstanceAs (Decidable (a ≤ b)),
    beq := fun a b => decide (a = b), ofInt := o.ofInt, floor := o.floor, ceil := o.ceil,
    fmod := o.fmod, exp := o.exp, log := o.log, sqrt := o.sqrt }

section
variable {K : Type} [LinearOrder K] [NumOpsC K]
@[simp] theorem pyBeq_eq (a b : K) : PyNum.beq a b = decide (a = b) := rfl
@[simp] theorem arith_zero_eq : (Arith.zero : K) = NumOpsC.ofInt 0 := rfl
@[simp] theorem arith_one_eq : (Arith.one : K) = NumOpsC.ofInt 1 := rfl
@[simp] theorem pyOfInt_eq (i : Int) : (PyNum.ofInt i : K) = NumOpsC.ofInt i := rfl
@[simp] theorem arith_ofNat_eq (n : Nat) : (Arith.ofNat n : K) = NumOpsC.ofInt n := rfl
end

open Lean Elab Term Meta in
/-- `nf% e`: the normal form of the closed term `e` (to be used as `e = nf% e := by rfl`) -/
elab "nf% " e:term : term => do
  let e ← elabTerm e none
  let e ← instantiateMVars e
  withTransparency .all <| reduce e (skipProofs := true) (skipTypes := true)

open Lean Elab Tactic Meta in
/-- closes `a = b` with `Eq.refl a` **checked by the kernel only** (the elaborator's own unifier is not
asked first: on the interpreter's terms it is slower than the kernel by an order of magnitude).  If `a`
and `b` are not definitionally equal the kernel rejects the theorem. -/
elab "kernel_rfl" : tactic => do
  let g ← getMainGoal
  let t ← instantiateMVars (← g.getType)
  let some (α, lhs, _) := t.eq? | throwError "kernel_rfl: not an equality"
  let u ← getLevel α
  g.assign (mkApp2 (mkConst ``Eq.refl [u]) α lhs)

namespace Tree
variable {α β : Type}
theorem denote_map {K : Type} [PyNum K] (ρ : Rho K) (g : α → β) :
    ∀ t : Tree α, (t.map g).denote ρ = g (t.denote ρ)
  | leaf a => rfl
  | node c t f => by
    simp only [map, denote]
    split
    · exact denote_map ρ g (t ())
    · exact denote_map ρ g (f ())
end Tree

/-! ### observations of a result -/

/-- what is observed of a run: the returned value and / or chosen parts of the final state, still
as terms; or the error -/
inductive Obs where
  | bool (t : BTerm)
  | int (t : ITerm)
  | num (t : NTerm)
  | none
  | ref (a : Nat)
  | str (s : String)
  | other
  | absent
  | tuple (l : List Obs)
  | err (e : Err)

def Obs.ofVal : Val → Obs
  | .bool t => .bool t
  | .int t => .int t
  | .num t => .num t
  | .none => .none
  | .ref a => .ref a
  | .str s => .str s
  | _ => .other

def Obs.ofOpt : Option Val → Obs
  | some v => Obs.ofVal v
  | Option.none => .absent

/-- the default observation: the returned value, the state dropped -/
def obs : Except Err (Val × St) → Obs
  | .ok (v, _) => Obs.ofVal v
  | .error e => .err e

/-- the concrete reading of an observation under a valuation -/
inductive CObs (K : Type) where
  | bool (b : Bool)
  | int (i : Int)
  | num (x : K)
  | none
  | ref (a : Nat)
  | str (s : String)
  | other
  | absent
  | tuple (l : List (CObs K))
  | err (e : Err)

mutual
def Obs.eval {K : Type} [PyNum K] (ρ : Rho K) : Obs → CObs K
  | .bool t => .bool (t.eval ρ)
  | .int t => .int (t.eval ρ)
  | .num t => .num (t.eval ρ)
  | .none => .none
  | .ref a => .ref a
  | .str s => .str s
  | .other => .other
  | .absent => .absent
  | .tuple l => .tuple (Obs.evalList ρ l)
  | .err e => .err e
def Obs.evalList {K : Type} [PyNum K] (ρ : Rho K) : List Obs → List (CObs K)
  | [] => []
  | o :: os => o.eval ρ :: Obs.evalList ρ os
end

/-- the observable result of running `fn` under observation `g`, read under `ρ` -/
def resultG {K : Type} [PyNum K] (g : Except Err (Val × St) → Obs) (ρ : Rho K) (env : Env) (fuel : Nat)
    (fn : String) (args : List Val) (st : St) : CObs K :=
  (g (sem ρ env fuel fn args st)).eval ρ

/-- what `fn` returns (or raises), read under `ρ` -/
def result {K : Type} [PyNum K] (ρ : Rho K) (env : Env) (fuel : Nat) (fn : String) (args : List Val)
    (st : St) : CObs K :=
  resultG obs ρ env fuel fn args st

/-- the paths of the symbolic run under observation `g` -/
def obsPathsG (g : Except Err (Val × St) → Obs) (env : Env) (fuel : Nat) (fn : String) (args : List Val)
    (st : St) : List (List (BTerm × Bool) × Obs) :=
  ((run env fuel fn args st).map g).paths

def obsPaths (env : Env) (fuel : Nat) (fn : String) (args : List Val) (st : St) :=
  obsPathsG obs env fuel fn args st

/-- the proof pattern: a claim about the observable result follows from the claim on every path -/
theorem resultG_of_paths {K : Type} [PyNum K] (g : Except Err (Val × St) → Obs) (ρ : Rho K) (env : Env)
    (fuel : Nat) (fn : String) (args : List Val) (st : St) (Q : CObs K → Prop)
    (h : ∀ p ∈ obsPathsG g env fuel fn args st, (∀ cb ∈ p.1, cb.1.eval ρ = cb.2) → Q (p.2.eval ρ)) :
    Q (resultG g ρ env fuel fn args st) := by
  have e : resultG g ρ env fuel fn args st = (((run env fuel fn args st).map g).denote ρ).eval ρ := by
    unfold resultG sem
    exact congrArg (Obs.eval ρ) (Tree.denote_map ρ g (run env fuel fn args st)).symm
  rw [e]
  exact Tree.denote_of_paths ρ (fun (o : Obs) => Q (o.eval ρ)) _ h

/-- the same for an equation -/
theorem resultG_eq_of_paths {K : Type} [PyNum K] (g : Except Err (Val × St) → Obs) (ρ : Rho K) (env : Env)
    (fuel : Nat) (fn : String) (args : List Val) (st : St) (c : CObs K)
    (h : ∀ p ∈ obsPathsG g env fuel fn args st, (∀ cb ∈ p.1, cb.1.eval ρ = cb.2) → p.2.eval ρ = c) :
    resultG g ρ env fuel fn args st = c :=
  resultG_of_paths g ρ env fuel fn args st (fun r => r = c) h

theorem result_eq_of_paths {K : Type} [PyNum K] (ρ : Rho K) (env : Env) (fuel : Nat) (fn : String)
    (args : List Val) (st : St) (c : CObs K)
    (h : ∀ p ∈ obsPaths env fuel fn args st, (∀ cb ∈ p.1, cb.1.eval ρ = cb.2) → p.2.eval ρ = c) :
    result ρ env fuel fn args st = c :=
  resultG_eq_of_paths obs ρ env fuel fn args st c h

/-- the pruned paths (`Tree.pathsP`) of the symbolic run under observation `g` -/
def obsPathsPG (g : Except Err (Val × St) → Obs) (env : Env) (fuel : Nat) (fn : String) (args : List Val)
    (st : St) : List (List (BTerm × Bool) × Obs) :=
  ((run env fuel fn args st).map g).pathsP []

/-- the proof pattern with pruned paths -/
theorem resultG_of_pathsP {K : Type} [PyNum K] (hrefl : ∀ x : K, PyNum.beq x x = true) (g : Except Err (Val × St) → Obs) (ρ : Rho K) (env : Env)
    (fuel : Nat) (fn : String) (args : List Val) (st : St) (Q : CObs K → Prop)
    (h : ∀ p ∈ obsPathsPG g env fuel fn args st, (∀ cb ∈ p.1, cb.1.eval ρ = cb.2) → Q (p.2.eval ρ)) :
    Q (resultG g ρ env fuel fn args st) := by
  have e : resultG g ρ env fuel fn args st = (((run env fuel fn args st).map g).denote ρ).eval ρ := by
    unfold resultG sem
    exact congrArg (Obs.eval ρ) (Tree.denote_map ρ g (run env fuel fn args st)).symm
  rw [e]
  exact Tree.denote_of_pathsP hrefl ρ (fun (o : Obs) => Q (o.eval ρ)) _ [] (by simp) h

theorem resultG_eq_of_pathsP {K : Type} [PyNum K] (hrefl : ∀ x : K, PyNum.beq x x = true) (g : Except Err (Val × St) → Obs) (ρ : Rho K) (env : Env)
    (fuel : Nat) (fn : String) (args : List Val) (st : St) (c : CObs K)
    (h : ∀ p ∈ obsPathsPG g env fuel fn args st, (∀ cb ∈ p.1, cb.1.eval ρ = cb.2) → p.2.eval ρ = c) :
    resultG g ρ env fuel fn args st = c :=
  resultG_of_pathsP hrefl g ρ env fuel fn args st (fun r => r = c) h

/-- after `apply result_eq_of_paths` and `show ∀ p ∈ <paths def>, _`: rewrite with the normal form
of the paths (a `rfl` theorem), split into one goal per path (an implication from the path's conditions) -/
macro "py_paths " t:term : tactic =>
  `(tactic| (rw [$t:term]
             simp only [List.forall_mem_cons, List.not_mem_nil, false_imp_iff, implies_true, and_true]
             repeat' apply And.intro))

/-! ### pruning by order reasoning

The conditions decided so far on a path are read as edges of a graph over terms (`a < b`: a strict
edge from `a` to `b`; `¬ a < b`, `a ≤ b`, `a == b`: weak edges); a query is decided when the graph
has a suitable path (a bounded depth-first search).  Sound for every valuation into a linear order. -/

structure Edge (T : Type) where
  src : T
  dst : T
  strict : Bool

/-- is there a path from `x` to `y` — through at least one strict edge if `s` — of length ≤ fuel? -/
def reach {T : Type} [DecidableEq T] (es : List (Edge T)) : Nat → T → T → Bool → Bool
  | 0, x, y, s => decide (x = y) && !s
  | n + 1, x, y, s =>
    (decide (x = y) && !s) || es.any (fun e => decide (e.src = x) && reach es n e.dst y (s && !e.strict))

theorem reach_sound {T L : Type} [DecidableEq T] [LinearOrder L] (val : T → L) (es : List (Edge T))
    (hv : ∀ e ∈ es, if e.strict then val e.src < val e.dst else val e.src ≤ val e.dst) :
    ∀ (n : Nat) (x y : T) (s : Bool), reach es n x y s = true →
      (if s then val x < val y else val x ≤ val y)
  | 0, x, y, s, h => by
    simp only [reach, Bool.and_eq_true, decide_eq_true_eq, Bool.not_eq_true'] at h
    obtain ⟨rfl, rfl⟩ := h
    simp
  | n + 1, x, y, s, h => by
    simp only [reach, Bool.or_eq_true, Bool.and_eq_true, decide_eq_true_eq, Bool.not_eq_true',
      List.any_eq_true] at h
    rcases h with ⟨rfl, rfl⟩ | ⟨e, he, hsrc, hr⟩
    · simp
    · have hve := hv e he
      have ih := reach_sound val es hv n e.dst y (s && !e.strict) hr
      subst hsrc
      cases hs : s <;> cases hst : e.strict <;> simp [hs, hst] at hve ih ⊢
      · exact le_trans hve ih
      · exact le_trans (le_of_lt hve) ih
      · exact lt_of_le_of_lt hve ih
      · exact lt_of_lt_of_le hve ih

/-- the float-order edges of the decided conditions -/
def nEdges : List (BTerm × Bool) → List (Edge NTerm)
  | [] => []
  | (.nlt a b, true) :: r => ⟨a, b, true⟩ :: nEdges r
  | (.nlt a b, false) :: r => ⟨b, a, false⟩ :: nEdges r
  | (.nle a b, true) :: r => ⟨a, b, false⟩ :: nEdges r
  | (.nle a b, false) :: r => ⟨b, a, true⟩ :: nEdges r
  | (.neq a b, true) :: r => ⟨a, b, false⟩ :: ⟨b, a, false⟩ :: nEdges r
  | _ :: r => nEdges r

/-- the integer-order edges of the decided conditions -/
def iEdges : List (BTerm × Bool) → List (Edge ITerm)
  | [] => []
  | (.ilt a b, true) :: r => ⟨a, b, true⟩ :: iEdges r
  | (.ilt a b, false) :: r => ⟨b, a, false⟩ :: iEdges r
  | (.ile a b, true) :: r => ⟨a, b, false⟩ :: iEdges r
  | (.ile a b, false) :: r => ⟨b, a, true⟩ :: iEdges r
  | (.ieq a b, true) :: r => ⟨a, b, false⟩ :: ⟨b, a, false⟩ :: iEdges r
  | _ :: r => iEdges r

section
variable {K : Type} [LinearOrder K] [NumOpsC K]

theorem nEdges_valid (ρ : Rho K) : ∀ (known : List (BTerm × Bool)), (∀ kb ∈ known, kb.1.eval ρ = kb.2) →
    ∀ e ∈ nEdges known, if e.strict then e.src.eval ρ < e.dst.eval ρ else e.src.eval ρ ≤ e.dst.eval ρ
  | [], _, e, he => by simp [nEdges] at he
  | (c, v) :: r, hk, e, he => by
    have hc := hk (c, v) (by simp)
    have ih := nEdges_valid ρ r (fun kb hkb => hk kb (List.mem_cons_of_mem _ hkb))
    cases c <;> cases v <;> simp only [nEdges, List.mem_cons] at he <;>
      first
      | exact ih e he
      | (rcases he with rfl | he
         · simp [BTerm.eval] at hc ⊢; first | exact hc | exact le_of_lt hc | exact le_of_eq hc | exact not_lt.mp hc | exact not_le.mp hc
         · first | exact ih e he | (rcases he with rfl | he
                                    · simp [BTerm.eval] at hc ⊢; exact le_of_eq hc.symm
                                    · exact ih e he))

theorem iEdges_valid (ρ : Rho K) : ∀ (known : List (BTerm × Bool)), (∀ kb ∈ known, kb.1.eval ρ = kb.2) →
    ∀ e ∈ iEdges known, if e.strict then e.src.eval ρ < e.dst.eval ρ else e.src.eval ρ ≤ e.dst.eval ρ
  | [], _, e, he => by simp [iEdges] at he
  | (c, v) :: r, hk, e, he => by
    have hc := hk (c, v) (by simp)
    have ih := iEdges_valid ρ r (fun kb hkb => hk kb (List.mem_cons_of_mem _ hkb))
    cases c <;> cases v <;> simp only [iEdges, List.mem_cons] at he <;>
      first
      | exact ih e he
      | (rcases he with rfl | he
         · simp [BTerm.eval] at hc ⊢; first | exact hc | exact le_of_lt hc | exact le_of_eq hc | omega
         · first | exact ih e he | (rcases he with rfl | he
                                    · simp [BTerm.eval] at hc ⊢; omega
                                    · exact ih e he))
end


/-- an equality asked the other way round -/
def decideSym (known : List (BTerm × Bool)) : BTerm → Option Bool
  | .neq x y => Tree.lookupB (.neq y x) known
  | .ieq x y => Tree.lookupB (.ieq y x) known
  | _ => none

/-- decision by paths in the order graph (bounded depth) -/
def decideGraph (known : List (BTerm × Bool)) (d : BTerm) : Option Bool :=
  let fuel := 2
  match d with
  | .nlt x y =>
    if reach (nEdges known) fuel x y true then some true
    else if reach (nEdges known) fuel y x false then some false else none
  | .nle x y =>
    if reach (nEdges known) fuel x y false then some true
    else if reach (nEdges known) fuel y x true then some false else none
  | .neq x y =>
    if reach (nEdges known) fuel x y true || reach (nEdges known) fuel y x true then some false
    else if reach (nEdges known) fuel x y false && reach (nEdges known) fuel y x false then some true else none
  | .ilt x y =>
    if reach (iEdges known) fuel x y true then some true
    else if reach (iEdges known) fuel y x false then some false else none
  | .ile x y =>
    if reach (iEdges known) fuel x y false then some true
    else if reach (iEdges known) fuel y x true then some false else none
  | .ieq x y =>
    if reach (iEdges known) fuel x y true || reach (iEdges known) fuel y x true then some false
    else if reach (iEdges known) fuel x y false && reach (iEdges known) fuel y x false then some true else none
  | _ => none

/-- decision by order reasoning: the syntactic look-up, the symmetric look-up, then the graph -/
def decideO (known : List (BTerm × Bool)) (d : BTerm) : Option Bool :=
  match Tree.lookupB d known with
  | some b => some b
  | none =>
    match decideSym known d with
    | some b => some b
    | none => decideGraph known d

section
variable {K : Type} [LinearOrder K] [NumOpsC K]

theorem decideSym_sound (ρ : Rho K) (known : List (BTerm × Bool)) (d : BTerm) (b : Bool)
    (hk : ∀ kb ∈ known, kb.1.eval ρ = kb.2) (h : decideSym known d = some b) : d.eval ρ = b := by
  cases d <;> simp only [decideSym] at h <;> try (simp at h)
  · rename_i x y
    have := Tree.lookupB_sound (K := K) (by intro x; simp) ρ (.ieq y x) known b hk h
    simp only [BTerm.eval] at this ⊢
    rw [← this]
    simp only [decide_eq_decide]
    exact eq_comm
  · rename_i x y
    have := Tree.lookupB_sound (K := K) (by intro x; simp) ρ (.neq y x) known b hk h
    simp only [BTerm.eval, pyBeq_eq] at this ⊢
    rw [← this]
    simp only [decide_eq_decide]
    exact eq_comm

theorem decideGraph_sound (ρ : Rho K) (known : List (BTerm × Bool)) (d : BTerm) (b : Bool)
    (hk : ∀ kb ∈ known, kb.1.eval ρ = kb.2) (h : decideGraph known d = some b) : d.eval ρ = b := by
  unfold decideGraph at h
  first
  | have hn := reach_sound (fun t : NTerm => t.eval ρ) (nEdges known) (nEdges_valid ρ known hk)
    have hi := reach_sound (fun t : ITerm => t.eval ρ) (iEdges known) (iEdges_valid ρ known hk)
    simp only at h
    split at h
    · -- nlt
      split at h
      · rename_i hr; simp only [Option.some.injEq] at h; subst h
        have := hn _ _ _ true hr; simpa [BTerm.eval] using this
      · split at h
        · rename_i hr; simp only [Option.some.injEq] at h; subst h
          have := hn _ _ _ false hr; simpa [BTerm.eval] using this
        · simp at h
    · -- nle
      split at h
      · rename_i hr; simp only [Option.some.injEq] at h; subst h
        have := hn _ _ _ false hr; simpa [BTerm.eval] using this
      · split at h
        · rename_i hr; simp only [Option.some.injEq] at h; subst h
          have := hn _ _ _ true hr; simpa [BTerm.eval] using this
        · simp at h
    · -- neq
      split at h
      · rename_i hr; simp only [Option.some.injEq] at h; subst h
        simp only [Bool.or_eq_true] at hr
        rcases hr with hr | hr
        · have := hn _ _ _ true hr; simp only [BTerm.eval, pyBeq_eq, decide_eq_false_iff_not] at this ⊢
          exact ne_of_lt this
        · have := hn _ _ _ true hr; simp only [BTerm.eval, pyBeq_eq, decide_eq_false_iff_not] at this ⊢
          exact (ne_of_lt this).symm
      · split at h
        · rename_i hr; simp only [Option.some.injEq] at h; subst h
          simp only [Bool.and_eq_true] at hr
          have h1 := hn _ _ _ false hr.1
          have h2 := hn _ _ _ false hr.2
          simp only [BTerm.eval, pyBeq_eq, decide_eq_true_eq] at h1 h2 ⊢
          exact le_antisymm h1 h2
        · simp at h
    · -- ilt
      split at h
      · rename_i hr; simp only [Option.some.injEq] at h; subst h
        have := hi _ _ _ true hr; simpa [BTerm.eval] using this
      · split at h
        · rename_i hr; simp only [Option.some.injEq] at h; subst h
          have := hi _ _ _ false hr; simpa [BTerm.eval] using this
        · simp at h
    · -- ile
      split at h
      · rename_i hr; simp only [Option.some.injEq] at h; subst h
        have := hi _ _ _ false hr; simpa [BTerm.eval] using this
      · split at h
        · rename_i hr; simp only [Option.some.injEq] at h; subst h
          have := hi _ _ _ true hr; simpa [BTerm.eval] using this
        · simp at h
    · -- ieq
      split at h
      · rename_i hr; simp only [Option.some.injEq] at h; subst h
        simp only [Bool.or_eq_true] at hr
        rcases hr with hr | hr
        · have := hi _ _ _ true hr; simp only [BTerm.eval, decide_eq_false_iff_not] at this ⊢
          exact ne_of_lt this
        · have := hi _ _ _ true hr; simp only [BTerm.eval, decide_eq_false_iff_not] at this ⊢
          exact (ne_of_lt this).symm
      · split at h
        · rename_i hr; simp only [Option.some.injEq] at h; subst h
          simp only [Bool.and_eq_true] at hr
          have h1 := hi _ _ _ false hr.1
          have h2 := hi _ _ _ false hr.2
          simp only [BTerm.eval, decide_eq_true_eq] at h1 h2 ⊢
          exact le_antisymm h1 h2
        · simp at h
    · simp at h


theorem decideO_sound (ρ : Rho K) (known : List (BTerm × Bool)) (d : BTerm) (b : Bool)
    (hk : ∀ kb ∈ known, kb.1.eval ρ = kb.2) (h : decideO known d = some b) : d.eval ρ = b := by
  unfold decideO at h
  split at h
  · rename_i b' hb
    simp only [Option.some.injEq] at h
    subst h
    exact Tree.lookupB_sound (by intro x; simp) ρ d known b' hk hb
  · split at h
    · rename_i b' hb
      simp only [Option.some.injEq] at h
      subst h
      exact decideSym_sound ρ known d b' hk hb
    · exact decideGraph_sound ρ known d b hk h

/-- the paths of the symbolic run under observation `g`, pruned by order reasoning -/
def obsPathsOG (g : Except Err (Val × St) → Obs) (env : Env) (fuel : Nat) (fn : String) (args : List Val)
    (st : St) : List (List (BTerm × Bool) × Obs) :=
  ((run env fuel fn args st).map g).pathsD decideO []

/-- the proof pattern with order-pruned paths (valuations into a linear order) -/
theorem resultG_of_pathsO (g : Except Err (Val × St) → Obs) (ρ : Rho K) (env : Env)
    (fuel : Nat) (fn : String) (args : List Val) (st : St) (Q : CObs K → Prop)
    (h : ∀ p ∈ obsPathsOG g env fuel fn args st, (∀ cb ∈ p.1, cb.1.eval ρ = cb.2) → Q (p.2.eval ρ)) :
    Q (resultG g ρ env fuel fn args st) := by
  have e : resultG g ρ env fuel fn args st = (((run env fuel fn args st).map g).denote ρ).eval ρ := by
    unfold resultG sem
    exact congrArg (Obs.eval ρ) (Tree.denote_map ρ g (run env fuel fn args st)).symm
  rw [e]
  exact Tree.denote_of_pathsD ρ decideO (fun known d b hk hb => decideO_sound ρ known d b hk hb)
    (fun (o : Obs) => Q (o.eval ρ)) _ [] (by simp) h

/-- the same under *assumptions*: conditions known to hold of the state the run starts in (the book is
sorted, volumes are positive, ids are distinct, …) are given to the pruner as already decided -/
def obsPathsAG (assume : List (BTerm × Bool)) (g : Except Err (Val × St) → Obs) (env : Env) (fuel : Nat)
    (fn : String) (args : List Val) (st : St) : List (List (BTerm × Bool) × Obs) :=
  ((run env fuel fn args st).map g).pathsD decideO assume

theorem resultG_of_pathsA (assume : List (BTerm × Bool)) (g : Except Err (Val × St) → Obs) (ρ : Rho K) (env : Env)
    (fuel : Nat) (fn : String) (args : List Val) (st : St) (Q : CObs K → Prop)
    (hass : ∀ kb ∈ assume, kb.1.eval ρ = kb.2)
    (h : ∀ p ∈ obsPathsAG assume g env fuel fn args st, (∀ cb ∈ p.1, cb.1.eval ρ = cb.2) → Q (p.2.eval ρ)) :
    Q (resultG g ρ env fuel fn args st) := by
  have e : resultG g ρ env fuel fn args st = (((run env fuel fn args st).map g).denote ρ).eval ρ := by
    unfold resultG sem
    exact congrArg (Obs.eval ρ) (Tree.denote_map ρ g (run env fuel fn args st)).symm
  rw [e]
  exact Tree.denote_of_pathsD ρ decideO (fun known d b hk hb => decideO_sound ρ known d b hk hb)
    (fun (o : Obs) => Q (o.eval ρ)) _ assume hass h

theorem resultG_eq_of_pathsA (assume : List (BTerm × Bool)) (g : Except Err (Val × St) → Obs) (ρ : Rho K)
    (env : Env) (fuel : Nat) (fn : String) (args : List Val) (st : St) (c : CObs K)
    (hass : ∀ kb ∈ assume, kb.1.eval ρ = kb.2)
    (h : ∀ p ∈ obsPathsAG assume g env fuel fn args st, (∀ cb ∈ p.1, cb.1.eval ρ = cb.2) → p.2.eval ρ = c) :
    resultG g ρ env fuel fn args st = c :=
  resultG_of_pathsA assume g ρ env fuel fn args st (fun r => r = c) hass h

theorem resultG_eq_of_pathsO (g : Except Err (Val × St) → Obs) (ρ : Rho K) (env : Env)
    (fuel : Nat) (fn : String) (args : List Val) (st : St) (c : CObs K)
    (h : ∀ p ∈ obsPathsOG g env fuel fn args st, (∀ cb ∈ p.1, cb.1.eval ρ = cb.2) → p.2.eval ρ = c) :
    resultG g ρ env fuel fn args st = c :=
  resultG_of_pathsO g ρ env fuel fn args st (fun r => r = c) h
end

end Pams.Py
