/-
Path enumerations of `Market._update_time` (see SrcTickDefs.lean).
-/
import PamsLemmas.EvalNf
import PamsLemmas.SrcTickDefs

namespace Pams.Src
open Pams Pams.Py
set_option maxRecDepth 1000000

theorem tickP_ttff : tickPaths true true false false = evalnf% (tickPaths true true false false) := by kernel_rfl
theorem tickP_ttft : tickPaths true true false true = evalnf% (tickPaths true true false true) := by kernel_rfl
theorem tickP_tttf : tickPaths true true true false = evalnf% (tickPaths true true true false) := by kernel_rfl
theorem tickP_tttt : tickPaths true true true true = evalnf% (tickPaths true true true true) := by kernel_rfl
theorem tickP_tfff : tickPaths true false false false = evalnf% (tickPaths true false false false) := by kernel_rfl
theorem tickP_tfft : tickPaths true false false true = evalnf% (tickPaths true false false true) := by kernel_rfl
theorem tickP_tftf : tickPaths true false true false = evalnf% (tickPaths true false true false) := by kernel_rfl
theorem tickP_tftt : tickPaths true false true true = evalnf% (tickPaths true false true true) := by kernel_rfl
theorem tickP_ftff : tickPaths false true false false = evalnf% (tickPaths false true false false) := by kernel_rfl
theorem tickP_ftft : tickPaths false true false true = evalnf% (tickPaths false true false true) := by kernel_rfl
theorem tickP_fttf : tickPaths false true true false = evalnf% (tickPaths false true true false) := by kernel_rfl
theorem tickP_fttt : tickPaths false true true true = evalnf% (tickPaths false true true true) := by kernel_rfl
theorem tickP_ffff : tickPaths false false false false = evalnf% (tickPaths false false false false) := by kernel_rfl
theorem tickP_ffft : tickPaths false false false true = evalnf% (tickPaths false false false true) := by kernel_rfl
theorem tickP_fftf : tickPaths false false true false = evalnf% (tickPaths false false true false) := by kernel_rfl
theorem tickP_fftt : tickPaths false false true true = evalnf% (tickPaths false false true true) := by kernel_rfl

end Pams.Src
