/-
Path enumerations of `Market._update_time` (see SrcTickDefs.lean).
-/
import PamsLemmas.SrcTickDefs

namespace Pams.Src
open Pams Pams.Py
set_option maxRecDepth 1000000

theorem tickP_ttff : tickPaths true true false false = nf% (tickPaths true true false false) := by rfl
theorem tickP_ttft : tickPaths true true false true = nf% (tickPaths true true false true) := by rfl
theorem tickP_tttf : tickPaths true true true false = nf% (tickPaths true true true false) := by rfl
theorem tickP_tttt : tickPaths true true true true = nf% (tickPaths true true true true) := by rfl
theorem tickP_tfff : tickPaths true false false false = nf% (tickPaths true false false false) := by rfl
theorem tickP_tfft : tickPaths true false false true = nf% (tickPaths true false false true) := by rfl
theorem tickP_tftf : tickPaths true false true false = nf% (tickPaths true false true false) := by rfl
theorem tickP_tftt : tickPaths true false true true = nf% (tickPaths true false true true) := by rfl
theorem tickP_ftff : tickPaths false true false false = nf% (tickPaths false true false false) := by rfl
theorem tickP_ftft : tickPaths false true false true = nf% (tickPaths false true false true) := by rfl
theorem tickP_fttf : tickPaths false true true false = nf% (tickPaths false true true false) := by rfl
theorem tickP_fttt : tickPaths false true true true = nf% (tickPaths false true true true) := by rfl
theorem tickP_ffff : tickPaths false false false false = nf% (tickPaths false false false false) := by rfl
theorem tickP_ffft : tickPaths false false false true = nf% (tickPaths false false false true) := by rfl
theorem tickP_fftf : tickPaths false false true false = nf% (tickPaths false false true false) := by rfl
theorem tickP_fftt : tickPaths false false true true = nf% (tickPaths false false true true) := by rfl

end Pams.Src
