/-
The regeneration bookkeeping of `pams/fundamentals.py` as it stands in /repo (translated:
`PamsGen.Code`) — `get_fundamental_price`, `_generate_until` and the four setters — against the model
`Pams.FundS`, step by step along the history on which defect F8 showed (two setter calls in a row,
dated 50 and 120, between two reads up to 200; chunk size 100).

`_generate_next` (NumPy) is an oracle here that does what the model's `gen` does: it keeps the steps up to
`_generated_until`, appends one chunk generated with the parameters *current at the call* — recorded in the
ghost field `prov` — and advances `_generated_until` by the chunk size.  A model state is written out as
the object at address 3 (`heapOfState`); parameter set `v` is the volatility num atom `10 + v`.
-/
import PamsLemmas.EvalNf
import PamsGen.Code
import PamsModel.FundSched
import PamsLemmas.SrcOrder

namespace Pams.Src
open Pams Pams.Py Pams.FundS

variable {K : Type} [LinearOrder K] [NumOpsC K]

def volVal (v : Nat) : Val := .num (.atom (10 + v))

def fundObj (s : St Nat) : String → Option Val
  | "__class__" => some (.str "Fundamentals")
  | "_generated_until" => some (.int (.lit s.g))
  | "_generate_chunk_size" => some (.int (.lit s.chunk))
  | "volatilities" => some (.dict [.int (.lit 0)] [volVal s.cur])
  | "drifts" => some (.dict [.int (.lit 0)] [.num (.atom 5)])
  | "correlation" => some (.dict [] [])
  | "prov" => some (.list (s.prov.map volVal))
  | "prices" => some (.dict [.int (.lit 0)] [.list (s.prov.map (fun _ => .num (.atom 99)))])
  | _ => none

def fundSt (s : St Nat) : St := { heap := fun a => if a = 3 then fundObj s else fun _ => none, calls := [] }

/-- the oracle for `_generate_next`: the model's `gen` on the written-out state -/
def fundExt : Ext := fun st recv fn args =>
  match recv, fn, args with
  | .ref 3, "_generate_next", [] =>
    match st.heap 3 "_generated_until", st.heap 3 "_generate_chunk_size", st.heap 3 "prov", st.heap 3 "volatilities",
          st.heap 3 "prices" with
    | some (.int (.lit g)), some (.int (.lit c)), some (.list prov), some (.dict _ [cur]), some (.dict ks [.list ps]) =>
      let st := st.set 3 "prov" (.list (prov.take (g.toNat + 1) ++ List.replicate c.toNat cur))
      let st := st.set 3 "prices" (.dict ks [.list (ps.take (g.toNat + 1) ++ List.replicate c.toNat (.num (.atom 99)))])
      some (.none, st.set 3 "_generated_until" (.int (.lit (g + c))))
    | _, _, _, _, _ => none
  | _, _, _ => none

def fundEnv : Env :=
  { prog := PamsGen.Code.prog, globals := globals, ext := fundExt }

/-- the state afterwards: regeneration point, current volatility, and the ghost record of every step -/
def fundObs : Except Py.Err (Val × St) → Obs
  | .ok (_, st) =>
    .tuple [Obs.ofOpt (st.heap 3 "_generated_until"),
            (match st.heap 3 "volatilities" with | some (.dict _ [v]) => Obs.ofVal v | _ => .absent),
            (match st.heap 3 "prov" with | some (.list l) => .tuple (l.map Obs.ofVal) | _ => .absent),
            .int (.lit (st.calls.filter (fun c => c.fn == "_generate_next")).length)]
  | .error e => .err e

/-- a model state as observed (with the number of generation rounds the step took) -/
def stateObs (ρ : Rho K) (s : St Nat) (rounds : Nat) : CObs K :=
  .tuple [.int s.g, .num (ρ.n (10 + s.cur)), .tuple (s.prov.map (fun v => .num (ρ.n (10 + v)))), .int rounds]

def fundPaths (fn : String) (args : List Val) (s : St Nat) :=
  obsPathsPG fundObs fundEnv 2000 ("Fundamentals." ++ fn) (.ref 3 :: args) (fundSt s)

/-- the history: chunk 100, read up to 200, volatility := set 1 from 50, := set 2 from 120, read up to 200 -/
def f0 : St Nat := init 0 100
def f1 : St Nat := f0.read 200
def f2 : St Nat := f1.change 50 (fun _ => 1)
def f3 : St Nat := f2.change 120 (fun _ => 2)
def f4 : St Nat := f3.read 200

set_option maxRecDepth 100000
theorem fdP1 : fundPaths "get_fundamental_price" [.int (.lit 0), .int (.lit 200)] f0 = evalnf% (fundPaths "get_fundamental_price" [.int (.lit 0), .int (.lit 200)] f0) := by kernel_rfl
theorem fdP2 : fundPaths "change_volatility" [.int (.lit 0), volVal 1, .int (.lit 50)] f1 = evalnf% (fundPaths "change_volatility" [.int (.lit 0), volVal 1, .int (.lit 50)] f1) := by kernel_rfl
theorem fdP3 : fundPaths "change_volatility" [.int (.lit 0), volVal 2, .int (.lit 120)] f2 = evalnf% (fundPaths "change_volatility" [.int (.lit 0), volVal 2, .int (.lit 120)] f2) := by kernel_rfl
theorem fdP4 : fundPaths "get_fundamental_price" [.int (.lit 0), .int (.lit 200)] f3 = evalnf% (fundPaths "get_fundamental_price" [.int (.lit 0), .int (.lit 200)] f3) := by kernel_rfl

/-- **reading up to 200 from the initial state** generates three chunks with the initial parameters -/
theorem fund_src_read_initial (ρ : Rho K) :
    resultG fundObs ρ fundEnv 2000 "Fundamentals.get_fundamental_price" [.ref 3, .int (.lit 0), .int (.lit 200)] (fundSt f0)
      = stateObs ρ f1 3 := by
  apply resultG_eq_of_pathsP (by intro x; simp)
  show ∀ p ∈ fundPaths "get_fundamental_price" [.int (.lit 0), .int (.lit 200)] f0, _
  py_paths fdP1
  intro _; rfl

/-- **a setter dated before the regeneration point** (volatility := set 1 from time 50, everything up to 300
generated): nothing is generated, the new set is installed, the regeneration point moves back to 50 -/
theorem fund_src_change_back (ρ : Rho K) (hv : ¬ ρ.n 11 < PyNum.ofInt 0) :
    resultG fundObs ρ fundEnv 2000 "Fundamentals.change_volatility" [.ref 3, .int (.lit 0), volVal 1, .int (.lit 50)] (fundSt f1)
      = stateObs ρ f2 0 := by
  apply resultG_eq_of_pathsP (by intro x; simp)
  show ∀ p ∈ fundPaths "change_volatility" [.int (.lit 0), volVal 1, .int (.lit 50)] f1, _
  py_paths fdP2
  all_goals intro h
  all_goals simp [BTerm.eval, NTerm.eval, ITerm.eval] at h
  all_goals first | exact absurd (of_decide_eq_true h) hv | rfl

/-- **a second setter dated after the regeneration point** (volatility := set 2 from time 120, regeneration
point 50): the steps 51 … 120 are first generated *with set 1* (one round of `_generate_until`, the repair of
defect F8), then set 2 is installed and the regeneration point set to 120 -/
theorem fund_src_change_settles_first (ρ : Rho K) (hv : ¬ ρ.n 12 < PyNum.ofInt 0) :
    resultG fundObs ρ fundEnv 2000 "Fundamentals.change_volatility" [.ref 3, .int (.lit 0), volVal 2, .int (.lit 120)] (fundSt f2)
      = stateObs ρ f3 1 := by
  apply resultG_eq_of_pathsP (by intro x; simp)
  show ∀ p ∈ fundPaths "change_volatility" [.int (.lit 0), volVal 2, .int (.lit 120)] f2, _
  py_paths fdP3
  all_goals intro h
  all_goals simp [BTerm.eval, NTerm.eval, ITerm.eval] at h
  all_goals first | exact absurd (of_decide_eq_true h) hv | rfl

/-- **the next read** regenerates from 120 with set 2: steps 1 … 50 keep the initial set, 51 … 120 set 1,
121 … carry set 2 -/
theorem fund_src_read_after (ρ : Rho K) :
    resultG fundObs ρ fundEnv 2000 "Fundamentals.get_fundamental_price" [.ref 3, .int (.lit 0), .int (.lit 200)] (fundSt f3)
      = stateObs ρ f4 1 := by
  apply resultG_eq_of_pathsP (by intro x; simp)
  show ∀ p ∈ fundPaths "get_fundamental_price" [.int (.lit 0), .int (.lit 200)] f3, _
  py_paths fdP4
  intro _; rfl

/-- what the final record says: step 50 initial set, step 100 set 1, step 120 set 1, step 121 set 2 -/
theorem fund_history_record : f4.prov[50]? = some 0 ∧ f4.prov[100]? = some 1 ∧ f4.prov[120]? = some 1 ∧
    f4.prov[121]? = some 2 ∧ f4.g = 220 := by decide +kernel

end Pams.Src
