/-
Path enumerations of `Market._add_order` (see SrcAddDefs.lean): `nf%` computes the pruned paths of the
symbolic run of the *current* translated source, `rfl` makes the kernel re-check them.
-/
import PamsLemmas.EvalNf
import PamsLemmas.SrcAddDefs

namespace Pams.Src
open Pams Pams.Py
set_option maxRecDepth 1000000

theorem addP_tt_limit : addPaths true true false false 0 .limit false false = evalnf% (addPaths true true false false 0 .limit false false) := by kernel_rfl
theorem addP_tt_market : addPaths true true false false 0 .market false false = evalnf% (addPaths true true false false 0 .market false false) := by kernel_rfl
theorem addP_tf_limit : addPaths true false false false 0 .limit false false = evalnf% (addPaths true false false false 0 .limit false false) := by kernel_rfl
theorem addP_tf_market : addPaths true false false false 0 .market false false = evalnf% (addPaths true false false false 0 .market false false) := by kernel_rfl
theorem addP_ft_limit : addPaths false true false false 0 .limit false false = evalnf% (addPaths false true false false 0 .limit false false) := by kernel_rfl
theorem addP_ft_market : addPaths false true false false 0 .market false false = evalnf% (addPaths false true false false 0 .market false false) := by kernel_rfl
theorem addP_ff_limit : addPaths false false false false 0 .limit false false = evalnf% (addPaths false false false false 0 .limit false false) := by kernel_rfl
theorem addP_ff_market : addPaths false false false false 0 .market false false = evalnf% (addPaths false false false false 0 .market false false) := by kernel_rfl
theorem addP_stamped : addPaths true true false true 0 .none false false = evalnf% (addPaths true true false true 0 .none false false) := by kernel_rfl
theorem addP_foreign : addPaths true true false false 1 .none false false = evalnf% (addPaths true true false false 1 .none false false) := by kernel_rfl

end Pams.Src
