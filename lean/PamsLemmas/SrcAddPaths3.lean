/-
Path enumerations of `Market._add_order` (see SrcAddDefs.lean): `nf%` computes the pruned paths of the
symbolic run of the *current* translated source, `rfl` makes the kernel re-check them.
-/
import PamsLemmas.SrcAddDefs

namespace Pams.Src
open Pams Pams.Py
set_option maxRecDepth 1000000

theorem addP_tt_limit : addPaths true true false false 0 .limit false false = nf% (addPaths true true false false 0 .limit false false) := by rfl
theorem addP_tt_market : addPaths true true false false 0 .market false false = nf% (addPaths true true false false 0 .market false false) := by rfl
theorem addP_tf_limit : addPaths true false false false 0 .limit false false = nf% (addPaths true false false false 0 .limit false false) := by rfl
theorem addP_tf_market : addPaths true false false false 0 .market false false = nf% (addPaths true false false false 0 .market false false) := by rfl
theorem addP_ft_limit : addPaths false true false false 0 .limit false false = nf% (addPaths false true false false 0 .limit false false) := by rfl
theorem addP_ft_market : addPaths false true false false 0 .market false false = nf% (addPaths false true false false 0 .market false false) := by rfl
theorem addP_ff_limit : addPaths false false false false 0 .limit false false = nf% (addPaths false false false false 0 .limit false false) := by rfl
theorem addP_ff_market : addPaths false false false false 0 .market false false = nf% (addPaths false false false false 0 .market false false) := by rfl
theorem addP_stamped : addPaths true true false true 0 .none false false = nf% (addPaths true true false true 0 .none false false) := by rfl
theorem addP_foreign : addPaths true true false false 1 .none false false = nf% (addPaths true true false false 1 .none false false) := by rfl

end Pams.Src
