/-
`IndexMarket.compute_market_index` / `compute_fundamental_index` as they stand in /repo (translated:
`PamsGen.Code`) are the model's `Index.indexValue` — by symbolic execution, for two and for three
components, all prices and share counts.

The index market lives at address 9, its components at 5, 6, 7 (objects of a class whose getters are
extern): outstanding shares are int atoms 50, 60, 70; the oracle answers `get_market_price(time=t)` with
num atoms 5, 6, 7 and `get_fundamental_price(time=t)` with 15, 16, 17.
-/
import PamsLemmas.EvalNf
import PamsGen.Code
import PamsModel.Index
import PamsLemmas.SrcOrder

namespace Pams.Src
open Pams Pams.Py

variable {K : Type} [LinearOrder K] [NumOpsC K]

def compObj (k : Nat) : String → Option Val
  | "__class__" => some (.str "ProbeMarket")
  | "outstanding_shares" => some (.int (.atom (10 * k)))
  | _ => none

def indexObj (n : Nat) : String → Option Val
  | "__class__" => some (.str "IndexMarket")
  | "_components" => some (.list (([5, 6, 7].take n).map Val.ref))
  | _ => none

def indexHeap (n : Nat) : Nat → String → Option Val :=
  fun addr => if addr = 9 then indexObj n else if addr = 5 then compObj 5 else if addr = 6 then compObj 6
    else if addr = 7 then compObj 7 else fun _ => none

def indexSt (n : Nat) : St := { heap := indexHeap n, calls := [] }

def indexExt : Ext := fun st recv fn _ =>
  match recv, fn with
  | .ref a, "get_market_price" => some (.num (.atom a), st)
  | .ref a, "get_fundamental_price" => some (.num (.atom (10 + a)), st)
  | _, _ => none

def indexEnv : Env := { prog := PamsGen.Code.prog, globals := globals, ext := indexExt }

def indexPaths (fn : String) (n : Nat) := obsPaths indexEnv FUEL fn [.ref 9, .int (.atom 1)] (indexSt n)

/-- valuation: prices `p` (market) / `q` (fundamental) and shares `s` of the components 5, 6, 7 -/
def rhoIndex (p q : Nat → K) (s : Nat → Nat) (t : Int) : Rho K :=
  { i := fun k => if k = 50 then s 5 else if k = 60 then s 6 else if k = 70 then s 7 else if k = 1 then t else 0
    n := fun k => if k = 5 then p 5 else if k = 6 then p 6 else if k = 7 then p 7
      else if k = 15 then q 5 else if k = 16 then q 6 else if k = 17 then q 7 else p 0
    b := fun _ => false }

set_option maxRecDepth 100000
theorem indexP_m2 : indexPaths "IndexMarket.compute_market_index" 2 = evalnf% (indexPaths "IndexMarket.compute_market_index" 2) := by kernel_rfl
theorem indexP_m3 : indexPaths "IndexMarket.compute_market_index" 3 = evalnf% (indexPaths "IndexMarket.compute_market_index" 3) := by kernel_rfl
theorem indexP_f2 : indexPaths "IndexMarket.compute_fundamental_index" 2 = evalnf% (indexPaths "IndexMarket.compute_fundamental_index" 2) := by kernel_rfl
theorem indexP_f3 : indexPaths "IndexMarket.compute_fundamental_index" 3 = evalnf% (indexPaths "IndexMarket.compute_fundamental_index" 3) := by kernel_rfl

macro "index_finish" : tactic =>
  `(tactic| (all_goals intro h
             all_goals simp [BTerm.eval, ITerm.eval, NTerm.eval, rhoIndex, Obs.eval, Index.indexValue, Index.totals] at h ⊢
             all_goals try grind))

/-- **the market index of two components is the model's share-weighted fold** (the total share count is
not zero as a float) -/
theorem index_src_market2 (p q : Nat → K) (s : Nat → Nat) (t : Int)
    (hz : (NumOpsC.ofInt ((0 : Int) + s 5 + s 6) : K) ≠ NumOpsC.ofInt 0) :
    result (rhoIndex p q s t) indexEnv FUEL "IndexMarket.compute_market_index" [.ref 9, .int (.atom 1)] (indexSt 2)
      = .num (Index.indexValue [(p 5, s 5), (p 6, s 6)]) := by
  apply result_eq_of_paths
  show ∀ x ∈ indexPaths "IndexMarket.compute_market_index" 2, _
  py_paths indexP_m2
  index_finish

theorem index_src_market3 (p q : Nat → K) (s : Nat → Nat) (t : Int)
    (hz : (NumOpsC.ofInt ((0 : Int) + s 5 + s 6 + s 7) : K) ≠ NumOpsC.ofInt 0) :
    result (rhoIndex p q s t) indexEnv FUEL "IndexMarket.compute_market_index" [.ref 9, .int (.atom 1)] (indexSt 3)
      = .num (Index.indexValue [(p 5, s 5), (p 6, s 6), (p 7, s 7)]) := by
  apply result_eq_of_paths
  show ∀ x ∈ indexPaths "IndexMarket.compute_market_index" 3, _
  py_paths indexP_m3
  index_finish

theorem index_src_fundamental2 (p q : Nat → K) (s : Nat → Nat) (t : Int)
    (hz : (NumOpsC.ofInt ((0 : Int) + s 5 + s 6) : K) ≠ NumOpsC.ofInt 0) :
    result (rhoIndex p q s t) indexEnv FUEL "IndexMarket.compute_fundamental_index" [.ref 9, .int (.atom 1)] (indexSt 2)
      = .num (Index.indexValue [(q 5, s 5), (q 6, s 6)]) := by
  apply result_eq_of_paths
  show ∀ x ∈ indexPaths "IndexMarket.compute_fundamental_index" 2, _
  py_paths indexP_f2
  index_finish

theorem index_src_fundamental3 (p q : Nat → K) (s : Nat → Nat) (t : Int)
    (hz : (NumOpsC.ofInt ((0 : Int) + s 5 + s 6 + s 7) : K) ≠ NumOpsC.ofInt 0) :
    result (rhoIndex p q s t) indexEnv FUEL "IndexMarket.compute_fundamental_index" [.ref 9, .int (.atom 1)] (indexSt 3)
      = .num (Index.indexValue [(q 5, s 5), (q 6, s 6), (q 7, s 7)]) := by
  apply result_eq_of_paths
  show ∀ x ∈ indexPaths "IndexMarket.compute_fundamental_index" 3, _
  py_paths indexP_f3
  index_finish

end Pams.Src
