/-
`IndexMarket.compute_market_index` / `compute_fundamental_index` as they stand in /repo (translated:
`PamsGen.Code`) are the model's `Index.indexValue` — by symbolic execution, for two and for three
components, all prices and share counts.

The index market lives at address 9, its components at 5, 6, 7 (objects of a class whose getters are
extern): outstanding shares are int atoms 50, 60, 70; the oracle answers `get_market_price(time=t)` with
num atoms 5, 6, 7 and `get_fundamental_price(time=t)` with 15, 16, 17.
-/
import PamsLemmas.EvalNf
import PamsGen.Code
import PamsModel.Index
import PamsLemmas.SrcOrder

namespace Pams.Src
open Pams Pams.Py

variable {K : Type} [LinearOrder K] [NumOpsC K]

def compObj (k : Nat) : String → Option Val
  | "__class__" => some (.str "ProbeMarket")
  | "outstanding_shares" => some (.int (.atom (10 * k)))
  | _ => none

def indexObj (n : Nat) : String → Option Val
  | "__class__" => some (.str "IndexMarket")
  | "_components" => some (.list (([5, 6, 7].take n).map Val.ref))
  | _ => none

def indexHeap (n : Nat) : Nat → String → Option Val :=
  fun addr => if addr = 9 then indexObj n else if addr = 5 then compObj 5 else if addr = 6 then compObj 6
    else if addr = 7 then compObj 7 else fun _ => none

def indexSt (n : Nat) : St := { heap := indexHeap n, calls := [] }

def indexExt : Ext := fun st recv fn _ =>
  match recv, fn with
  | .ref a, "get_market_price" => some (.num (.atom a), st)
  | .ref a, "get_fundamental_price" => some (.num (.atom (10 + a)), st)
  | _, _ => none

def indexEnv : Env := { prog := PamsGen.Code.prog, globals := globals, ext := indexExt }

def indexPaths (fn : String) (n : Nat) := obsPaths indexEnv FUEL fn [.ref 9, .int (.atom 1)] (indexSt n)

/-- valuation: prices `p` (market) / `q` (fundamental) and shares `s` of the components 5, 6, 7 -/
def rhoIndex (p q : Nat → K) (s : Nat → Nat) (t : Int) : Rho K :=
  { i := fun k => if k = 50 then s 5 else if k = 60 then s 6 else if k = 70 then s 7 else if k = 1 then t else 0
    n := fun k => if k = 5 then p 5 else if k = 6 then p 6 else if k = 7 then p 7
      else if k = 15 then q 5 else if k = 16 then q 6 else if k = 17 then q 7 else p 0
    b := fun _ => false }

set_option maxRecDepth 100000
theorem indexP_m2 : indexPaths "IndexMarket.compute_market_index" 2 = evalnf% (indexPaths "IndexMarket.compute_market_index" 2) := by kernel_rfl
theorem indexP_m3 : indexPaths "IndexMarket.compute_market_index" 3 = evalnf% (indexPaths "IndexMarket.compute_market_index" 3) := by kernel_rfl
theorem indexP_f2 : indexPaths "IndexMarket.compute_fundamental_index" 2 = evalnf% (indexPaths "IndexMarket.compute_fundamental_index" 2) := by kernel_rfl
theorem indexP_f3 : indexPaths "IndexMarket.compute_fundamental_index" 3 = evalnf% (indexPaths "IndexMarket.compute_fundamental_index" 3) := by kernel_rfl

macro "index_finish" : tactic =>
  `(tactic| (all_goals intro h
             all_goals simp [BTerm.eval, ITerm.eval, NTerm.eval, rhoIndex, Obs.eval, Index.indexValue, Index.totals] at h ⊢
             all_goals try grind))

/-- **the market index of two components is the model's share-weighted fold** (the total share count is
not zero as a float) -/
theorem index_src_market2 (p q : Nat → K) (s : Nat → Nat) (t : Int)
    (hz : (NumOpsC.ofInt ((0 : Int) + s 5 + s 6) : K) ≠ NumOpsC.ofInt 0) :
    result (rhoIndex p q s t) indexEnv FUEL "IndexMarket.compute_market_index" [.ref 9, .int (.atom 1)] (indexSt 2)
      = .num (Index.indexValue [(p 5, s 5), (p 6, s 6)]) := by
  apply result_eq_of_paths
  show ∀ x ∈ indexPaths "IndexMarket.compute_market_index" 2, _
  py_paths indexP_m2
  index_finish

theorem index_src_market3 (p q : Nat → K) (s : Nat → Nat) (t : Int)
    (hz : (NumOpsC.ofInt ((0 : Int) + s 5 + s 6 + s 7) : K) ≠ NumOpsC.ofInt 0) :
    result (rhoIndex p q s t) indexEnv FUEL "IndexMarket.compute_market_index" [.ref 9, .int (.atom 1)] (indexSt 3)
      = .num (Index.indexValue [(p 5, s 5), (p 6, s 6), (p 7, s 7)]) := by
  apply result_eq_of_paths
  show ∀ x ∈ indexPaths "IndexMarket.compute_market_index" 3, _
  py_paths indexP_m3
  index_finish

theorem index_src_fundamental2 (p q : Nat → K) (s : Nat → Nat) (t : Int)
    (hz : (NumOpsC.ofInt ((0 : Int) + s 5 + s 6) : K) ≠ NumOpsC.ofInt 0) :
    result (rhoIndex p q s t) indexEnv FUEL "IndexMarket.compute_fundamental_index" [.ref 9, .int (.atom 1)] (indexSt 2)
      = .num (Index.indexValue [(q 5, s 5), (q 6, s 6)]) := by
  apply result_eq_of_paths
  show ∀ x ∈ indexPaths "IndexMarket.compute_fundamental_index" 2, _
  py_paths indexP_f2
  index_finish

theorem index_src_fundamental3 (p q : Nat → K) (s : Nat → Nat) (t : Int)
    (hz : (NumOpsC.ofInt ((0 : Int) + s 5 + s 6 + s 7) : K) ≠ NumOpsC.ofInt 0) :
    result (rhoIndex p q s t) indexEnv FUEL "IndexMarket.compute_fundamental_index" [.ref 9, .int (.atom 1)] (indexSt 3)
      = .num (Index.indexValue [(q 5, s 5), (q 6, s 6), (q 7, s 7)]) := by
  apply result_eq_of_paths
  show ∀ x ∈ indexPaths "IndexMarket.compute_fundamental_index" 3, _
  py_paths indexP_f3
  index_finish

end Pams.Src

/-! ### the index market's component bookkeeping -/
namespace Pams.Src
open Pams Pams.Py
variable {K : Type} [LinearOrder K] [NumOpsC K]

/-- an index market (address 9) over the components 5 and 6, whose running flags are the bool atoms 5 and 6;
a candidate component at address 7 with (`shares = true`) or without outstanding shares -/
def idxBkHeap (shares : Bool) : Nat → String → Option Val :=
  fun addr =>
    if addr = 9 then (fun f => match f with
      | "__class__" => some (.str "IndexMarket") | "_components" => some (.list [.ref 5, .ref 6]) | _ => none)
    else if addr = 5 ∨ addr = 6 then (fun f => match f with
      | "__class__" => some (.str "Market") | "_is_running" => some (.bool (.atom addr))
      | "outstanding_shares" => some (.int (.atom (10 * addr))) | _ => none)
    else if addr = 7 then (fun f => match f with
      | "__class__" => some (.str "Market") | "outstanding_shares" => some (if shares then .int (.atom 70) else .none)
      | _ => none)
    else fun _ => none

def idxBkSt (shares : Bool) : St := { heap := idxBkHeap shares, calls := [] }
def idxBkEnv : Env := { prog := PamsGen.Code.prog, globals := globals, ext := fun _ _ _ _ => none, mro := PamsGen.Code.mroOf }

def compsObs : Except Py.Err (Val × St) → Obs
  | .ok (v, st) => .tuple [Obs.ofVal v, match st.heap 9 "_components" with
      | some (.list l) => .tuple (l.map Obs.ofVal) | _ => .absent]
  | .error e => .err e

def idxBkPaths (fn : String) (args : List Val) (shares : Bool) :=
  obsPathsPG compsObs idxBkEnv FUEL ("IndexMarket." ++ fn) (.ref 9 :: args) (idxBkSt shares)

def rhoBk (r5 r6 : Bool) : Rho K :=
  { i := fun _ => 0, n := fun _ => PyNum.ofInt 0, b := fun k => if k = 5 then r5 else r6 }

theorem ibP_run : idxBkPaths "is_all_markets_running" [] true = evalnf% (idxBkPaths "is_all_markets_running" [] true) := by kernel_rfl
theorem ibP_add : idxBkPaths "_add_market" [.ref 7] true = evalnf% (idxBkPaths "_add_market" [.ref 7] true) := by kernel_rfl
theorem ibP_addNo : idxBkPaths "_add_market" [.ref 7] false = evalnf% (idxBkPaths "_add_market" [.ref 7] false) := by kernel_rfl
theorem ibP_addDup : idxBkPaths "_add_market" [.ref 6] true = evalnf% (idxBkPaths "_add_market" [.ref 6] true) := by kernel_rfl

/-- **`is_all_markets_running` is the conjunction of the components' running flags**; `_add_market` appends a
new component, and refuses one that is a component already or has no outstanding shares -/
theorem index_src_components (r5 r6 : Bool) :
    resultG compsObs (rhoBk (K := K) r5 r6) idxBkEnv FUEL "IndexMarket.is_all_markets_running" [.ref 9] (idxBkSt true)
      = .tuple [.bool (r5 && r6), .tuple [.ref 5, .ref 6]] ∧
    resultG compsObs (rhoBk (K := K) r5 r6) idxBkEnv FUEL "IndexMarket._add_market" [.ref 9, .ref 7] (idxBkSt true)
      = .tuple [.none, .tuple [.ref 5, .ref 6, .ref 7]] ∧
    resultG compsObs (rhoBk (K := K) r5 r6) idxBkEnv FUEL "IndexMarket._add_market" [.ref 9, .ref 7] (idxBkSt false)
      = .err (.raise "AssertionError") ∧
    resultG compsObs (rhoBk (K := K) r5 r6) idxBkEnv FUEL "IndexMarket._add_market" [.ref 9, .ref 6] (idxBkSt true)
      = .err (.raise "ValueError") := by
  refine ⟨?_, ?_, ?_, ?_⟩
  · apply resultG_eq_of_pathsP (by intro x; simp)
    show ∀ p ∈ idxBkPaths "is_all_markets_running" [] true, _
    py_paths ibP_run
    all_goals intro h
    all_goals simp [BTerm.eval, ITerm.eval, rhoBk, Obs.eval, Obs.evalList] at h ⊢
    all_goals (cases r5 <;> cases r6 <;> simp_all)
  · apply resultG_eq_of_pathsP (by intro x; simp)
    show ∀ p ∈ idxBkPaths "_add_market" [.ref 7] true, _
    py_paths ibP_add
    all_goals intro h
    all_goals simp [BTerm.eval, ITerm.eval, rhoBk, Obs.eval, Obs.evalList] at h ⊢
  · apply resultG_eq_of_pathsP (by intro x; simp)
    show ∀ p ∈ idxBkPaths "_add_market" [.ref 7] false, _
    py_paths ibP_addNo
    all_goals intro h
    all_goals simp [BTerm.eval, ITerm.eval, rhoBk, Obs.eval, Obs.evalList] at h ⊢
  · apply resultG_eq_of_pathsP (by intro x; simp)
    show ∀ p ∈ idxBkPaths "_add_market" [.ref 6] true, _
    py_paths ibP_addDup
    all_goals intro h
    all_goals simp [BTerm.eval, ITerm.eval, rhoBk, Obs.eval, Obs.evalList] at h ⊢

end Pams.Src
