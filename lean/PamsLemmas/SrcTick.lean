/-
`Market._update_time` of the current source = the model's `Market.tick` (see SrcTickDefs.lean for the
setting): a clock step with expiry, shape by shape, and combined.
-/
import PamsLemmas.SrcTickPaths
import PamsLemmas.SrcAddTac

namespace Pams.Src
open Pams Pams.Py
variable {K : Type} [LinearOrder K] [NumOpsC K]
set_option maxRecDepth 100000
set_option maxHeartbeats 1000000

theorem int_add_lt_one (a b : Nat) : ((a : Int) + (b : Int) < 1) ↔ (a = 0 ∧ b = 0) := by omega
theorem int_one_le_add (a b : Nat) : ((1 : Int) ≤ (a : Int) + (b : Int)) ↔ ¬ (a = 0 ∧ b = 0) := by omega
theorem int_add_eq_add (a b c d : Nat) : ((a : Int) + (b : Int) = (c : Int) + (d : Int)) ↔ a + b = c + d := by omega
theorem int_lt_one (a : Nat) : ((a : Int) < 1) ↔ a = 0 := by omega
theorem int_one_le (a : Nat) : ((1 : Int) ≤ (a : Int)) ↔ ¬ a = 0 := by omega

syntax "tick_paths_finish" "[" Lean.Parser.Tactic.simpLemma,* "]" : tactic
macro_rules
  | `(tactic| tick_paths_finish [$hs,*]) =>
    `(tactic| (all_goals intro h
               all_goals simp [BTerm.eval, ITerm.eval, NTerm.eval, rhoTick, Obs.eval, Obs.evalList, int_zero_eq_cast,
                 int_cast_eq_zero, int_cast_eq_cast, int_cast_lt_cast, int_cast_le_cast, int_zero_lt_cast, int_add_lt_one,
                 int_one_le_add, int_add_eq_add, int_lt_one, int_one_le, $hs,*] at h ⊢
               all_goals simp [modelTickObs, Market.tick, Book.expiredAt, Book.keepAt, Order.expired, marketRule, srcOps,
                 cOpt, $hs,*]
               all_goals try grind (splits := 40)
               all_goals try (revert h; simp only [and_imp]; intros; subst_vars; simp_all [apply_ite]; done)
               all_goals try (revert h; simp only [and_imp]; intros; subst_vars; simp_all [apply_ite]; grind (splits := 40))
               all_goals try omega))

theorem tick_src_ttff (m : Market K) (a c : Order K) (fund dflt pa pc lp md mp fp : K) (tta ttc : Nat)
    (hb : m.buys = [a, c]) (hs : m.sells = []) (ha : a.isBuy = true) (hpa : a.price = some pa) (hta : a.ttl = some tta)
    (hc : c.isBuy = true) (hpc : c.price = some pc) (htc : c.ttl = some ttc) (ht : m.time = 0)
    (hl : m.cur.last = none) (hmid : m.cur.mid = none) (hmk : m.cur.market = some mp) (hf : m.cur.fund = some fp)
    (hac : a.id ≠ c.id) (hkeys : a.placedAt + tta ≠ c.placedAt + ttc) :
    resultG tickObs (rhoTick m a c fund dflt) tickEnv XFUEL "Market._update_time" [.ref 5, .num (.atom 56)]
        (stTick true true false false)
      = modelTickObs a c (m.tick (srcOps K) (some fund)) := by
  rcases m with ⟨time, running, nextId, buys, sells, gone, ⟨cmk, clast, cmid, cfund, cev, cto, cnb, cns⟩, past⟩
  rcases a with ⟨ida, aga, isBuya, pricea, vola, pla, ttla⟩
  rcases c with ⟨idc, agc, isBuyc, pricec, volc, plc, ttlc⟩
  simp only at hb hs ha hpa hta hc hpc htc ht hl hmid hmk hf hac hkeys
  subst hb hs ha hpa hta hc hpc htc ht hl hmid hmk hf
  apply resultG_eq_of_pathsP hrefl_order
  show ∀ p ∈ tickPaths true true false false, _
  py_paths tickP_ttff
  tick_paths_finish [hac, Ne.symm hac, hkeys, Ne.symm hkeys]

theorem tick_src_ttft (m : Market K) (a c : Order K) (fund dflt pa pc lp md mp fp : K) (tta ttc : Nat)
    (hb : m.buys = [a, c]) (hs : m.sells = []) (ha : a.isBuy = true) (hpa : a.price = some pa) (hta : a.ttl = some tta)
    (hc : c.isBuy = true) (hpc : c.price = some pc) (htc : c.ttl = some ttc) (ht : m.time = 0)
    (hl : m.cur.last = none) (hmid : m.cur.mid = some md) (hmk : m.cur.market = some mp) (hf : m.cur.fund = some fp)
    (hac : a.id ≠ c.id) (hkeys : a.placedAt + tta ≠ c.placedAt + ttc) :
    resultG tickObs (rhoTick m a c fund dflt) tickEnv XFUEL "Market._update_time" [.ref 5, .num (.atom 56)]
        (stTick true true false true)
      = modelTickObs a c (m.tick (srcOps K) (some fund)) := by
  rcases m with ⟨time, running, nextId, buys, sells, gone, ⟨cmk, clast, cmid, cfund, cev, cto, cnb, cns⟩, past⟩
  rcases a with ⟨ida, aga, isBuya, pricea, vola, pla, ttla⟩
  rcases c with ⟨idc, agc, isBuyc, pricec, volc, plc, ttlc⟩
  simp only at hb hs ha hpa hta hc hpc htc ht hl hmid hmk hf hac hkeys
  subst hb hs ha hpa hta hc hpc htc ht hl hmid hmk hf
  apply resultG_eq_of_pathsP hrefl_order
  show ∀ p ∈ tickPaths true true false true, _
  py_paths tickP_ttft
  tick_paths_finish [hac, Ne.symm hac, hkeys, Ne.symm hkeys]

theorem tick_src_tttf (m : Market K) (a c : Order K) (fund dflt pa pc lp md mp fp : K) (tta ttc : Nat)
    (hb : m.buys = [a, c]) (hs : m.sells = []) (ha : a.isBuy = true) (hpa : a.price = some pa) (hta : a.ttl = some tta)
    (hc : c.isBuy = true) (hpc : c.price = some pc) (htc : c.ttl = some ttc) (ht : m.time = 0)
    (hl : m.cur.last = some lp) (hmid : m.cur.mid = none) (hmk : m.cur.market = some mp) (hf : m.cur.fund = some fp)
    (hac : a.id ≠ c.id) (hkeys : a.placedAt + tta ≠ c.placedAt + ttc) :
    resultG tickObs (rhoTick m a c fund dflt) tickEnv XFUEL "Market._update_time" [.ref 5, .num (.atom 56)]
        (stTick true true true false)
      = modelTickObs a c (m.tick (srcOps K) (some fund)) := by
  rcases m with ⟨time, running, nextId, buys, sells, gone, ⟨cmk, clast, cmid, cfund, cev, cto, cnb, cns⟩, past⟩
  rcases a with ⟨ida, aga, isBuya, pricea, vola, pla, ttla⟩
  rcases c with ⟨idc, agc, isBuyc, pricec, volc, plc, ttlc⟩
  simp only at hb hs ha hpa hta hc hpc htc ht hl hmid hmk hf hac hkeys
  subst hb hs ha hpa hta hc hpc htc ht hl hmid hmk hf
  apply resultG_eq_of_pathsP hrefl_order
  show ∀ p ∈ tickPaths true true true false, _
  py_paths tickP_tttf
  tick_paths_finish [hac, Ne.symm hac, hkeys, Ne.symm hkeys]

theorem tick_src_tttt (m : Market K) (a c : Order K) (fund dflt pa pc lp md mp fp : K) (tta ttc : Nat)
    (hb : m.buys = [a, c]) (hs : m.sells = []) (ha : a.isBuy = true) (hpa : a.price = some pa) (hta : a.ttl = some tta)
    (hc : c.isBuy = true) (hpc : c.price = some pc) (htc : c.ttl = some ttc) (ht : m.time = 0)
    (hl : m.cur.last = some lp) (hmid : m.cur.mid = some md) (hmk : m.cur.market = some mp) (hf : m.cur.fund = some fp)
    (hac : a.id ≠ c.id) (hkeys : a.placedAt + tta ≠ c.placedAt + ttc) :
    resultG tickObs (rhoTick m a c fund dflt) tickEnv XFUEL "Market._update_time" [.ref 5, .num (.atom 56)]
        (stTick true true true true)
      = modelTickObs a c (m.tick (srcOps K) (some fund)) := by
  rcases m with ⟨time, running, nextId, buys, sells, gone, ⟨cmk, clast, cmid, cfund, cev, cto, cnb, cns⟩, past⟩
  rcases a with ⟨ida, aga, isBuya, pricea, vola, pla, ttla⟩
  rcases c with ⟨idc, agc, isBuyc, pricec, volc, plc, ttlc⟩
  simp only at hb hs ha hpa hta hc hpc htc ht hl hmid hmk hf hac hkeys
  subst hb hs ha hpa hta hc hpc htc ht hl hmid hmk hf
  apply resultG_eq_of_pathsP hrefl_order
  show ∀ p ∈ tickPaths true true true true, _
  py_paths tickP_tttt
  tick_paths_finish [hac, Ne.symm hac, hkeys, Ne.symm hkeys]

theorem tick_src_tfff (m : Market K) (a c : Order K) (fund dflt pa pc lp md mp fp : K) (tta ttc : Nat)
    (hb : m.buys = [a, c]) (hs : m.sells = []) (ha : a.isBuy = true) (hpa : a.price = some pa) (hta : a.ttl = some tta)
    (hc : c.isBuy = true) (hpc : c.price = some pc) (htc : c.ttl = none) (ht : m.time = 0)
    (hl : m.cur.last = none) (hmid : m.cur.mid = none) (hmk : m.cur.market = some mp) (hf : m.cur.fund = some fp)
    (hac : a.id ≠ c.id) (hkeys : a.placedAt + tta ≠ c.placedAt + ttc) :
    resultG tickObs (rhoTick m a c fund dflt) tickEnv XFUEL "Market._update_time" [.ref 5, .num (.atom 56)]
        (stTick true false false false)
      = modelTickObs a c (m.tick (srcOps K) (some fund)) := by
  rcases m with ⟨time, running, nextId, buys, sells, gone, ⟨cmk, clast, cmid, cfund, cev, cto, cnb, cns⟩, past⟩
  rcases a with ⟨ida, aga, isBuya, pricea, vola, pla, ttla⟩
  rcases c with ⟨idc, agc, isBuyc, pricec, volc, plc, ttlc⟩
  simp only at hb hs ha hpa hta hc hpc htc ht hl hmid hmk hf hac hkeys
  subst hb hs ha hpa hta hc hpc htc ht hl hmid hmk hf
  apply resultG_eq_of_pathsP hrefl_order
  show ∀ p ∈ tickPaths true false false false, _
  py_paths tickP_tfff
  tick_paths_finish [hac, Ne.symm hac, hkeys, Ne.symm hkeys]

theorem tick_src_tfft (m : Market K) (a c : Order K) (fund dflt pa pc lp md mp fp : K) (tta ttc : Nat)
    (hb : m.buys = [a, c]) (hs : m.sells = []) (ha : a.isBuy = true) (hpa : a.price = some pa) (hta : a.ttl = some tta)
    (hc : c.isBuy = true) (hpc : c.price = some pc) (htc : c.ttl = none) (ht : m.time = 0)
    (hl : m.cur.last = none) (hmid : m.cur.mid = some md) (hmk : m.cur.market = some mp) (hf : m.cur.fund = some fp)
    (hac : a.id ≠ c.id) (hkeys : a.placedAt + tta ≠ c.placedAt + ttc) :
    resultG tickObs (rhoTick m a c fund dflt) tickEnv XFUEL "Market._update_time" [.ref 5, .num (.atom 56)]
        (stTick true false false true)
      = modelTickObs a c (m.tick (srcOps K) (some fund)) := by
  rcases m with ⟨time, running, nextId, buys, sells, gone, ⟨cmk, clast, cmid, cfund, cev, cto, cnb, cns⟩, past⟩
  rcases a with ⟨ida, aga, isBuya, pricea, vola, pla, ttla⟩
  rcases c with ⟨idc, agc, isBuyc, pricec, volc, plc, ttlc⟩
  simp only at hb hs ha hpa hta hc hpc htc ht hl hmid hmk hf hac hkeys
  subst hb hs ha hpa hta hc hpc htc ht hl hmid hmk hf
  apply resultG_eq_of_pathsP hrefl_order
  show ∀ p ∈ tickPaths true false false true, _
  py_paths tickP_tfft
  tick_paths_finish [hac, Ne.symm hac, hkeys, Ne.symm hkeys]

theorem tick_src_tftf (m : Market K) (a c : Order K) (fund dflt pa pc lp md mp fp : K) (tta ttc : Nat)
    (hb : m.buys = [a, c]) (hs : m.sells = []) (ha : a.isBuy = true) (hpa : a.price = some pa) (hta : a.ttl = some tta)
    (hc : c.isBuy = true) (hpc : c.price = some pc) (htc : c.ttl = none) (ht : m.time = 0)
    (hl : m.cur.last = some lp) (hmid : m.cur.mid = none) (hmk : m.cur.market = some mp) (hf : m.cur.fund = some fp)
    (hac : a.id ≠ c.id) (hkeys : a.placedAt + tta ≠ c.placedAt + ttc) :
    resultG tickObs (rhoTick m a c fund dflt) tickEnv XFUEL "Market._update_time" [.ref 5, .num (.atom 56)]
        (stTick true false true false)
      = modelTickObs a c (m.tick (srcOps K) (some fund)) := by
  rcases m with ⟨time, running, nextId, buys, sells, gone, ⟨cmk, clast, cmid, cfund, cev, cto, cnb, cns⟩, past⟩
  rcases a with ⟨ida, aga, isBuya, pricea, vola, pla, ttla⟩
  rcases c with ⟨idc, agc, isBuyc, pricec, volc, plc, ttlc⟩
  simp only at hb hs ha hpa hta hc hpc htc ht hl hmid hmk hf hac hkeys
  subst hb hs ha hpa hta hc hpc htc ht hl hmid hmk hf
  apply resultG_eq_of_pathsP hrefl_order
  show ∀ p ∈ tickPaths true false true false, _
  py_paths tickP_tftf
  tick_paths_finish [hac, Ne.symm hac, hkeys, Ne.symm hkeys]

theorem tick_src_tftt (m : Market K) (a c : Order K) (fund dflt pa pc lp md mp fp : K) (tta ttc : Nat)
    (hb : m.buys = [a, c]) (hs : m.sells = []) (ha : a.isBuy = true) (hpa : a.price = some pa) (hta : a.ttl = some tta)
    (hc : c.isBuy = true) (hpc : c.price = some pc) (htc : c.ttl = none) (ht : m.time = 0)
    (hl : m.cur.last = some lp) (hmid : m.cur.mid = some md) (hmk : m.cur.market = some mp) (hf : m.cur.fund = some fp)
    (hac : a.id ≠ c.id) (hkeys : a.placedAt + tta ≠ c.placedAt + ttc) :
    resultG tickObs (rhoTick m a c fund dflt) tickEnv XFUEL "Market._update_time" [.ref 5, .num (.atom 56)]
        (stTick true false true true)
      = modelTickObs a c (m.tick (srcOps K) (some fund)) := by
  rcases m with ⟨time, running, nextId, buys, sells, gone, ⟨cmk, clast, cmid, cfund, cev, cto, cnb, cns⟩, past⟩
  rcases a with ⟨ida, aga, isBuya, pricea, vola, pla, ttla⟩
  rcases c with ⟨idc, agc, isBuyc, pricec, volc, plc, ttlc⟩
  simp only at hb hs ha hpa hta hc hpc htc ht hl hmid hmk hf hac hkeys
  subst hb hs ha hpa hta hc hpc htc ht hl hmid hmk hf
  apply resultG_eq_of_pathsP hrefl_order
  show ∀ p ∈ tickPaths true false true true, _
  py_paths tickP_tftt
  tick_paths_finish [hac, Ne.symm hac, hkeys, Ne.symm hkeys]

theorem tick_src_ftff (m : Market K) (a c : Order K) (fund dflt pa pc lp md mp fp : K) (tta ttc : Nat)
    (hb : m.buys = [a, c]) (hs : m.sells = []) (ha : a.isBuy = true) (hpa : a.price = some pa) (hta : a.ttl = none)
    (hc : c.isBuy = true) (hpc : c.price = some pc) (htc : c.ttl = some ttc) (ht : m.time = 0)
    (hl : m.cur.last = none) (hmid : m.cur.mid = none) (hmk : m.cur.market = some mp) (hf : m.cur.fund = some fp)
    (hac : a.id ≠ c.id) (hkeys : a.placedAt + tta ≠ c.placedAt + ttc) :
    resultG tickObs (rhoTick m a c fund dflt) tickEnv XFUEL "Market._update_time" [.ref 5, .num (.atom 56)]
        (stTick false true false false)
      = modelTickObs a c (m.tick (srcOps K) (some fund)) := by
  rcases m with ⟨time, running, nextId, buys, sells, gone, ⟨cmk, clast, cmid, cfund, cev, cto, cnb, cns⟩, past⟩
  rcases a with ⟨ida, aga, isBuya, pricea, vola, pla, ttla⟩
  rcases c with ⟨idc, agc, isBuyc, pricec, volc, plc, ttlc⟩
  simp only at hb hs ha hpa hta hc hpc htc ht hl hmid hmk hf hac hkeys
  subst hb hs ha hpa hta hc hpc htc ht hl hmid hmk hf
  apply resultG_eq_of_pathsP hrefl_order
  show ∀ p ∈ tickPaths false true false false, _
  py_paths tickP_ftff
  tick_paths_finish [hac, Ne.symm hac, hkeys, Ne.symm hkeys]

theorem tick_src_ftft (m : Market K) (a c : Order K) (fund dflt pa pc lp md mp fp : K) (tta ttc : Nat)
    (hb : m.buys = [a, c]) (hs : m.sells = []) (ha : a.isBuy = true) (hpa : a.price = some pa) (hta : a.ttl = none)
    (hc : c.isBuy = true) (hpc : c.price = some pc) (htc : c.ttl = some ttc) (ht : m.time = 0)
    (hl : m.cur.last = none) (hmid : m.cur.mid = some md) (hmk : m.cur.market = some mp) (hf : m.cur.fund = some fp)
    (hac : a.id ≠ c.id) (hkeys : a.placedAt + tta ≠ c.placedAt + ttc) :
    resultG tickObs (rhoTick m a c fund dflt) tickEnv XFUEL "Market._update_time" [.ref 5, .num (.atom 56)]
        (stTick false true false true)
      = modelTickObs a c (m.tick (srcOps K) (some fund)) := by
  rcases m with ⟨time, running, nextId, buys, sells, gone, ⟨cmk, clast, cmid, cfund, cev, cto, cnb, cns⟩, past⟩
  rcases a with ⟨ida, aga, isBuya, pricea, vola, pla, ttla⟩
  rcases c with ⟨idc, agc, isBuyc, pricec, volc, plc, ttlc⟩
  simp only at hb hs ha hpa hta hc hpc htc ht hl hmid hmk hf hac hkeys
  subst hb hs ha hpa hta hc hpc htc ht hl hmid hmk hf
  apply resultG_eq_of_pathsP hrefl_order
  show ∀ p ∈ tickPaths false true false true, _
  py_paths tickP_ftft
  tick_paths_finish [hac, Ne.symm hac, hkeys, Ne.symm hkeys]

theorem tick_src_fttf (m : Market K) (a c : Order K) (fund dflt pa pc lp md mp fp : K) (tta ttc : Nat)
    (hb : m.buys = [a, c]) (hs : m.sells = []) (ha : a.isBuy = true) (hpa : a.price = some pa) (hta : a.ttl = none)
    (hc : c.isBuy = true) (hpc : c.price = some pc) (htc : c.ttl = some ttc) (ht : m.time = 0)
    (hl : m.cur.last = some lp) (hmid : m.cur.mid = none) (hmk : m.cur.market = some mp) (hf : m.cur.fund = some fp)
    (hac : a.id ≠ c.id) (hkeys : a.placedAt + tta ≠ c.placedAt + ttc) :
    resultG tickObs (rhoTick m a c fund dflt) tickEnv XFUEL "Market._update_time" [.ref 5, .num (.atom 56)]
        (stTick false true true false)
      = modelTickObs a c (m.tick (srcOps K) (some fund)) := by
  rcases m with ⟨time, running, nextId, buys, sells, gone, ⟨cmk, clast, cmid, cfund, cev, cto, cnb, cns⟩, past⟩
  rcases a with ⟨ida, aga, isBuya, pricea, vola, pla, ttla⟩
  rcases c with ⟨idc, agc, isBuyc, pricec, volc, plc, ttlc⟩
  simp only at hb hs ha hpa hta hc hpc htc ht hl hmid hmk hf hac hkeys
  subst hb hs ha hpa hta hc hpc htc ht hl hmid hmk hf
  apply resultG_eq_of_pathsP hrefl_order
  show ∀ p ∈ tickPaths false true true false, _
  py_paths tickP_fttf
  tick_paths_finish [hac, Ne.symm hac, hkeys, Ne.symm hkeys]

theorem tick_src_fttt (m : Market K) (a c : Order K) (fund dflt pa pc lp md mp fp : K) (tta ttc : Nat)
    (hb : m.buys = [a, c]) (hs : m.sells = []) (ha : a.isBuy = true) (hpa : a.price = some pa) (hta : a.ttl = none)
    (hc : c.isBuy = true) (hpc : c.price = some pc) (htc : c.ttl = some ttc) (ht : m.time = 0)
    (hl : m.cur.last = some lp) (hmid : m.cur.mid = some md) (hmk : m.cur.market = some mp) (hf : m.cur.fund = some fp)
    (hac : a.id ≠ c.id) (hkeys : a.placedAt + tta ≠ c.placedAt + ttc) :
    resultG tickObs (rhoTick m a c fund dflt) tickEnv XFUEL "Market._update_time" [.ref 5, .num (.atom 56)]
        (stTick false true true true)
      = modelTickObs a c (m.tick (srcOps K) (some fund)) := by
  rcases m with ⟨time, running, nextId, buys, sells, gone, ⟨cmk, clast, cmid, cfund, cev, cto, cnb, cns⟩, past⟩
  rcases a with ⟨ida, aga, isBuya, pricea, vola, pla, ttla⟩
  rcases c with ⟨idc, agc, isBuyc, pricec, volc, plc, ttlc⟩
  simp only at hb hs ha hpa hta hc hpc htc ht hl hmid hmk hf hac hkeys
  subst hb hs ha hpa hta hc hpc htc ht hl hmid hmk hf
  apply resultG_eq_of_pathsP hrefl_order
  show ∀ p ∈ tickPaths false true true true, _
  py_paths tickP_fttt
  tick_paths_finish [hac, Ne.symm hac, hkeys, Ne.symm hkeys]

theorem tick_src_ffff (m : Market K) (a c : Order K) (fund dflt pa pc lp md mp fp : K) (tta ttc : Nat)
    (hb : m.buys = [a, c]) (hs : m.sells = []) (ha : a.isBuy = true) (hpa : a.price = some pa) (hta : a.ttl = none)
    (hc : c.isBuy = true) (hpc : c.price = some pc) (htc : c.ttl = none) (ht : m.time = 0)
    (hl : m.cur.last = none) (hmid : m.cur.mid = none) (hmk : m.cur.market = some mp) (hf : m.cur.fund = some fp)
    (hac : a.id ≠ c.id) (hkeys : a.placedAt + tta ≠ c.placedAt + ttc) :
    resultG tickObs (rhoTick m a c fund dflt) tickEnv XFUEL "Market._update_time" [.ref 5, .num (.atom 56)]
        (stTick false false false false)
      = modelTickObs a c (m.tick (srcOps K) (some fund)) := by
  rcases m with ⟨time, running, nextId, buys, sells, gone, ⟨cmk, clast, cmid, cfund, cev, cto, cnb, cns⟩, past⟩
  rcases a with ⟨ida, aga, isBuya, pricea, vola, pla, ttla⟩
  rcases c with ⟨idc, agc, isBuyc, pricec, volc, plc, ttlc⟩
  simp only at hb hs ha hpa hta hc hpc htc ht hl hmid hmk hf hac hkeys
  subst hb hs ha hpa hta hc hpc htc ht hl hmid hmk hf
  apply resultG_eq_of_pathsP hrefl_order
  show ∀ p ∈ tickPaths false false false false, _
  py_paths tickP_ffff
  tick_paths_finish [hac, Ne.symm hac, hkeys, Ne.symm hkeys]

theorem tick_src_ffft (m : Market K) (a c : Order K) (fund dflt pa pc lp md mp fp : K) (tta ttc : Nat)
    (hb : m.buys = [a, c]) (hs : m.sells = []) (ha : a.isBuy = true) (hpa : a.price = some pa) (hta : a.ttl = none)
    (hc : c.isBuy = true) (hpc : c.price = some pc) (htc : c.ttl = none) (ht : m.time = 0)
    (hl : m.cur.last = none) (hmid : m.cur.mid = some md) (hmk : m.cur.market = some mp) (hf : m.cur.fund = some fp)
    (hac : a.id ≠ c.id) (hkeys : a.placedAt + tta ≠ c.placedAt + ttc) :
    resultG tickObs (rhoTick m a c fund dflt) tickEnv XFUEL "Market._update_time" [.ref 5, .num (.atom 56)]
        (stTick false false false true)
      = modelTickObs a c (m.tick (srcOps K) (some fund)) := by
  rcases m with ⟨time, running, nextId, buys, sells, gone, ⟨cmk, clast, cmid, cfund, cev, cto, cnb, cns⟩, past⟩
  rcases a with ⟨ida, aga, isBuya, pricea, vola, pla, ttla⟩
  rcases c with ⟨idc, agc, isBuyc, pricec, volc, plc, ttlc⟩
  simp only at hb hs ha hpa hta hc hpc htc ht hl hmid hmk hf hac hkeys
  subst hb hs ha hpa hta hc hpc htc ht hl hmid hmk hf
  apply resultG_eq_of_pathsP hrefl_order
  show ∀ p ∈ tickPaths false false false true, _
  py_paths tickP_ffft
  tick_paths_finish [hac, Ne.symm hac, hkeys, Ne.symm hkeys]

theorem tick_src_fftf (m : Market K) (a c : Order K) (fund dflt pa pc lp md mp fp : K) (tta ttc : Nat)
    (hb : m.buys = [a, c]) (hs : m.sells = []) (ha : a.isBuy = true) (hpa : a.price = some pa) (hta : a.ttl = none)
    (hc : c.isBuy = true) (hpc : c.price = some pc) (htc : c.ttl = none) (ht : m.time = 0)
    (hl : m.cur.last = some lp) (hmid : m.cur.mid = none) (hmk : m.cur.market = some mp) (hf : m.cur.fund = some fp)
    (hac : a.id ≠ c.id) (hkeys : a.placedAt + tta ≠ c.placedAt + ttc) :
    resultG tickObs (rhoTick m a c fund dflt) tickEnv XFUEL "Market._update_time" [.ref 5, .num (.atom 56)]
        (stTick false false true false)
      = modelTickObs a c (m.tick (srcOps K) (some fund)) := by
  rcases m with ⟨time, running, nextId, buys, sells, gone, ⟨cmk, clast, cmid, cfund, cev, cto, cnb, cns⟩, past⟩
  rcases a with ⟨ida, aga, isBuya, pricea, vola, pla, ttla⟩
  rcases c with ⟨idc, agc, isBuyc, pricec, volc, plc, ttlc⟩
  simp only at hb hs ha hpa hta hc hpc htc ht hl hmid hmk hf hac hkeys
  subst hb hs ha hpa hta hc hpc htc ht hl hmid hmk hf
  apply resultG_eq_of_pathsP hrefl_order
  show ∀ p ∈ tickPaths false false true false, _
  py_paths tickP_fftf
  tick_paths_finish [hac, Ne.symm hac, hkeys, Ne.symm hkeys]

theorem tick_src_fftt (m : Market K) (a c : Order K) (fund dflt pa pc lp md mp fp : K) (tta ttc : Nat)
    (hb : m.buys = [a, c]) (hs : m.sells = []) (ha : a.isBuy = true) (hpa : a.price = some pa) (hta : a.ttl = none)
    (hc : c.isBuy = true) (hpc : c.price = some pc) (htc : c.ttl = none) (ht : m.time = 0)
    (hl : m.cur.last = some lp) (hmid : m.cur.mid = some md) (hmk : m.cur.market = some mp) (hf : m.cur.fund = some fp)
    (hac : a.id ≠ c.id) (hkeys : a.placedAt + tta ≠ c.placedAt + ttc) :
    resultG tickObs (rhoTick m a c fund dflt) tickEnv XFUEL "Market._update_time" [.ref 5, .num (.atom 56)]
        (stTick false false true true)
      = modelTickObs a c (m.tick (srcOps K) (some fund)) := by
  rcases m with ⟨time, running, nextId, buys, sells, gone, ⟨cmk, clast, cmid, cfund, cev, cto, cnb, cns⟩, past⟩
  rcases a with ⟨ida, aga, isBuya, pricea, vola, pla, ttla⟩
  rcases c with ⟨idc, agc, isBuyc, pricec, volc, plc, ttlc⟩
  simp only at hb hs ha hpa hta hc hpc htc ht hl hmid hmk hf hac hkeys
  subst hb hs ha hpa hta hc hpc htc ht hl hmid hmk hf
  apply resultG_eq_of_pathsP hrefl_order
  show ∀ p ∈ tickPaths false false true true, _
  py_paths tickP_fftt
  tick_paths_finish [hac, Ne.symm hac, hkeys, Ne.symm hkeys]

/-- **a clock step with expiry** (buy queue `[a, c]`, each with or without a time-to-live, empty sell
side, any step statistics): the current source advances the three clocks, drops exactly the orders
whose `placedAt + ttl` lies before the new time from the queue and from the expiry index, carries
last-trade and mid price over, applies the market-price rule, records the fundamental price and opens
a fresh slot — exactly as `Market.tick` of the model says. -/
theorem tick_src (m : Market K) (a c : Order K) (fund dflt pa pc mp fp : K)
    (hb : m.buys = [a, c]) (hs : m.sells = []) (ha : a.isBuy = true) (hpa : a.price = some pa)
    (hc : c.isBuy = true) (hpc : c.price = some pc) (ht : m.time = 0)
    (hmk : m.cur.market = some mp) (hf : m.cur.fund = some fp) (hac : a.id ≠ c.id)
    (hkeys : a.placedAt + a.ttl.getD 0 ≠ c.placedAt + c.ttl.getD 0) :
    resultG tickObs (rhoTick m a c fund dflt) tickEnv XFUEL "Market._update_time" [.ref 5, .num (.atom 56)]
        (stTick a.ttl.isSome c.ttl.isSome m.cur.last.isSome m.cur.mid.isSome)
      = modelTickObs a c (m.tick (srcOps K) (some fund)) := by
  cases hta : a.ttl with
  | none =>
    cases htc : c.ttl with
    | none =>
      rw [hta, htc] at hkeys
      simp only [Option.getD] at hkeys
      cases hl : m.cur.last with
      | none =>
        cases hmid : m.cur.mid with
        | none => exact tick_src_ffff m a c fund dflt pa pc dflt dflt mp fp 0 0 hb hs ha hpa hta hc hpc htc ht hl hmid hmk hf hac hkeys
        | some md => exact tick_src_ffft m a c fund dflt pa pc dflt md mp fp 0 0 hb hs ha hpa hta hc hpc htc ht hl hmid hmk hf hac hkeys
      | some lp =>
        cases hmid : m.cur.mid with
        | none => exact tick_src_fftf m a c fund dflt pa pc lp dflt mp fp 0 0 hb hs ha hpa hta hc hpc htc ht hl hmid hmk hf hac hkeys
        | some md => exact tick_src_fftt m a c fund dflt pa pc lp md mp fp 0 0 hb hs ha hpa hta hc hpc htc ht hl hmid hmk hf hac hkeys
    | some ttc =>
      rw [hta, htc] at hkeys
      simp only [Option.getD] at hkeys
      cases hl : m.cur.last with
      | none =>
        cases hmid : m.cur.mid with
        | none => exact tick_src_ftff m a c fund dflt pa pc dflt dflt mp fp 0 ttc hb hs ha hpa hta hc hpc htc ht hl hmid hmk hf hac hkeys
        | some md => exact tick_src_ftft m a c fund dflt pa pc dflt md mp fp 0 ttc hb hs ha hpa hta hc hpc htc ht hl hmid hmk hf hac hkeys
      | some lp =>
        cases hmid : m.cur.mid with
        | none => exact tick_src_fttf m a c fund dflt pa pc lp dflt mp fp 0 ttc hb hs ha hpa hta hc hpc htc ht hl hmid hmk hf hac hkeys
        | some md => exact tick_src_fttt m a c fund dflt pa pc lp md mp fp 0 ttc hb hs ha hpa hta hc hpc htc ht hl hmid hmk hf hac hkeys
  | some tta =>
    cases htc : c.ttl with
    | none =>
      rw [hta, htc] at hkeys
      simp only [Option.getD] at hkeys
      cases hl : m.cur.last with
      | none =>
        cases hmid : m.cur.mid with
        | none => exact tick_src_tfff m a c fund dflt pa pc dflt dflt mp fp tta 0 hb hs ha hpa hta hc hpc htc ht hl hmid hmk hf hac hkeys
        | some md => exact tick_src_tfft m a c fund dflt pa pc dflt md mp fp tta 0 hb hs ha hpa hta hc hpc htc ht hl hmid hmk hf hac hkeys
      | some lp =>
        cases hmid : m.cur.mid with
        | none => exact tick_src_tftf m a c fund dflt pa pc lp dflt mp fp tta 0 hb hs ha hpa hta hc hpc htc ht hl hmid hmk hf hac hkeys
        | some md => exact tick_src_tftt m a c fund dflt pa pc lp md mp fp tta 0 hb hs ha hpa hta hc hpc htc ht hl hmid hmk hf hac hkeys
    | some ttc =>
      rw [hta, htc] at hkeys
      simp only [Option.getD] at hkeys
      cases hl : m.cur.last with
      | none =>
        cases hmid : m.cur.mid with
        | none => exact tick_src_ttff m a c fund dflt pa pc dflt dflt mp fp tta ttc hb hs ha hpa hta hc hpc htc ht hl hmid hmk hf hac hkeys
        | some md => exact tick_src_ttft m a c fund dflt pa pc dflt md mp fp tta ttc hb hs ha hpa hta hc hpc htc ht hl hmid hmk hf hac hkeys
      | some lp =>
        cases hmid : m.cur.mid with
        | none => exact tick_src_tttf m a c fund dflt pa pc lp dflt mp fp tta ttc hb hs ha hpa hta hc hpc htc ht hl hmid hmk hf hac hkeys
        | some md => exact tick_src_tttt m a c fund dflt pa pc lp md mp fp tta ttc hb hs ha hpa hta hc hpc htc ht hl hmid hmk hf hac hkeys

end Pams.Src
