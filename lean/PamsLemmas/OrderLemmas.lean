import PamsModel.Order

namespace Pams
variable {P : Type} [LinearOrder P]

/-- the documented ranking, spelled out: market before limit; better price; earlier acceptance;
lower id -/
def ranksBefore (a b : Order P) : Prop :=
  match a.price, b.price with
  | none, some _ => True
  | some _, none => False
  | none, none => a.placedAt < b.placedAt ∨ (a.placedAt = b.placedAt ∧ a.id < b.id)
  | some pa, some pb =>
    (if a.isBuy then pb < pa else pa < pb) ∨
      (pa = pb ∧ (a.placedAt < b.placedAt ∨ (a.placedAt = b.placedAt ∧ a.id < b.id)))

theorem lt_iff_ranksBefore (a b : Order P) : a.lt b = true ↔ ranksBefore a b := by
  unfold Order.lt gtLt ranksBefore cmpPlaced
  rcases ha : a.price with _ | pa <;> rcases hb : b.price with _ | pb <;> simp
  · by_cases h : a.placedAt = b.placedAt <;> simp [h]
  · by_cases h : pa = pb
    · subst h
      by_cases h2 : a.placedAt = b.placedAt <;> simp [h2] <;>
        (intro hh; exact absurd hh (lt_irrefl _))
    · cases hbuy : a.isBuy <;> simp [h]

theorem gt_eq_lt_swap (a b : Order P) (hs : a.isBuy = b.isBuy) : a.gt b = b.lt a := by
  unfold Order.gt Order.lt gtLt cmpPlaced
  rcases ha : a.price with _ | pa <;> rcases hb : b.price with _ | pb <;> simp
  · by_cases h : a.placedAt = b.placedAt
    · simp [h]
    · have : ¬ b.placedAt = a.placedAt := fun e => h e.symm
      simp [h, this]
  · by_cases h : pa = pb
    · subst h
      by_cases h2 : a.placedAt = b.placedAt
      · simp [h2]
      · have : ¬ b.placedAt = a.placedAt := fun e => h2 e.symm
        simp [h2, this]
    · have h' : ¬ pb = pa := fun e => h e.symm
      rw [← hs]
      cases hbuy : a.isBuy <;> simp [h, h']

theorem olt_irrefl (a : Order P) : a.lt a = false := by
  unfold Order.lt gtLt cmpPlaced
  rcases ha : a.price with _ | pa <;> simp

theorem olt_asymm (a b : Order P) (hs : a.isBuy = b.isBuy) (h : a.lt b = true) :
    b.lt a = false := by
  rw [lt_iff_ranksBefore] at h
  by_contra h2
  have h2 : b.lt a = true := by simpa using h2
  rw [lt_iff_ranksBefore] at h2
  unfold ranksBefore at h h2
  rcases ha : a.price with _ | pa <;> rcases hb : b.price with _ | pb <;> simp [ha, hb] at h h2
  · omega
  · rw [← hs] at h2
    cases hbuy : a.isBuy <;> simp [hbuy] at h h2 <;> grind

theorem olt_trans (a b c : Order P) (h1 : a.isBuy = b.isBuy)
    (hab : a.lt b = true) (hbc : b.lt c = true) : a.lt c = true := by
  rw [lt_iff_ranksBefore] at *
  unfold ranksBefore at *
  rcases ha : a.price with _ | pa <;> rcases hb : b.price with _ | pb <;>
    rcases hc : c.price with _ | pc <;> simp [ha, hb, hc] at hab hbc ⊢
  · omega
  · rw [← h1] at hbc
    cases hbuy : a.isBuy <;> simp [hbuy] at hab hbc ⊢ <;> grind

theorem olt_total (a b : Order P) (hs : a.isBuy = b.isBuy) (hid : a.id ≠ b.id) :
    a.lt b = true ∨ b.lt a = true := by
  rw [lt_iff_ranksBefore, lt_iff_ranksBefore]
  unfold ranksBefore
  rcases ha : a.price with _ | pa <;> rcases hb : b.price with _ | pb <;> simp
  · omega
  · rw [← hs]
    cases hbuy : a.isBuy <;> simp <;> grind

theorem eqv_refl (a : Order P) : a.eqv a = true := by simp [Order.eqv]

theorem eqv_imp_id (a b : Order P) (h : a.eqv b = true) : a.id = b.id := by
  simp [Order.eqv] at h; exact h.1.1.1

/-- priority does not depend on the (remaining) volume -/
theorem lt_vol_irrel_left (a b : Order P) (v : Nat) : ({ a with vol := v } : Order P).lt b = a.lt b := rfl
theorem lt_vol_irrel_right (a b : Order P) (v : Nat) : a.lt ({ b with vol := v } : Order P) = a.lt b := rfl

end Pams
