/-
The market's time-indexed getters as they stand in /repo (translated: `PamsGen.Code`):
`_extract_data_by_time` and the getters built on it (`get_market_price`, `get_mid_price`,
`get_last_executed_price`, `get_fundamental_price`, `get_executed_volume`, `get_executed_total_price`,
`get_n_buy_order`, `get_n_sell_order`) — by symbolic execution, for a *quantified query time*.

Setting: a market (address 5) whose clock is the int atom 1 and whose series have four slots: slot `k` of
the market price series is num atom `10 + k`, of the fundamental series `20 + k`; the mid / last-trade
series hold `None` in slot 1 (no quote / no trade in that step) and atoms `30 + k` / `40 + k` elsewhere;
the integer series (volume, counts) int atoms `50 + k`, `60 + k`, `70 + k`, turnover num atoms `80 + k`.
-/
import PamsLemmas.EvalNf
import PamsGen.Code
import PamsLemmas.SrcOrder

namespace Pams.Src
open Pams Pams.Py

variable {K : Type} [LinearOrder K] [NumOpsC K]

def seriesN (base : Nat) : Val := .list ((List.range 4).map (fun k => .num (.atom (base + k))))
def seriesI (base : Nat) : Val := .list ((List.range 4).map (fun k => .int (.atom (base + k))))
def seriesOpt (base : Nat) : Val :=
  .list ((List.range 4).map (fun k => if k = 1 then Val.none else .num (.atom (base + k))))

def getMarket : String → Option Val
  | "__class__" => some (.str "Market")
  | "time" => some (.int (.atom 1))
  | "_market_prices" => some (seriesN 10)
  | "_fundamental_prices" => some (seriesN 20)
  | "_mid_prices" => some (seriesOpt 30)
  | "_last_executed_prices" => some (seriesOpt 40)
  | "_executed_volumes" => some (seriesI 50)
  | "_n_buy_orders" => some (seriesI 60)
  | "_n_sell_orders" => some (seriesI 70)
  | "_executed_total_prices" => some (seriesN 80)
  | _ => none

def getSt : St := { heap := fun a => if a = 5 then getMarket else fun _ => none, calls := [] }
def getEnv : Env := { prog := PamsGen.Code.prog, globals := globals, ext := fun _ _ _ _ => none, mro := PamsGen.Code.mroOf }

/-- a query at the symbolic time int atom 2 -/
def getPaths (fn : String) := obsPathsPG obs getEnv FUEL ("Market." ++ fn) [.ref 5, .int (.atom 2)] getSt
/-- a query without a time (`None`: the current time) -/
def getNowPaths (fn : String) := obsPathsPG obs getEnv FUEL ("Market." ++ fn) [.ref 5] getSt

/-- valuation: the clock `now`, the query time `q`, the series as functions of the slot -/
def rhoGet (now q : Int) (num : Nat → K) (int : Nat → Int) : Rho K :=
  { i := fun k => if k = 1 then now else if k = 2 then q else int k
    n := fun k => num k
    b := fun _ => false }

set_option maxRecDepth 100000
theorem gtP_mp : getPaths "get_market_price" = evalnf% (getPaths "get_market_price") := by kernel_rfl
theorem gtP_fp : getPaths "get_fundamental_price" = evalnf% (getPaths "get_fundamental_price") := by kernel_rfl
theorem gtP_mid : getPaths "get_mid_price" = evalnf% (getPaths "get_mid_price") := by kernel_rfl
theorem gtP_last : getPaths "get_last_executed_price" = evalnf% (getPaths "get_last_executed_price") := by kernel_rfl
theorem gtP_vol : getPaths "get_executed_volume" = evalnf% (getPaths "get_executed_volume") := by kernel_rfl
theorem gtP_turn : getPaths "get_executed_total_price" = evalnf% (getPaths "get_executed_total_price") := by kernel_rfl
theorem gtP_nb : getPaths "get_n_buy_order" = evalnf% (getPaths "get_n_buy_order") := by kernel_rfl
theorem gtP_ns : getPaths "get_n_sell_order" = evalnf% (getPaths "get_n_sell_order") := by kernel_rfl

/-- **a query for a time later than the clock is refused** — by every getter, for every clock value and
every later query time, before any slot is read -/
theorem getters_src_future_refused (now q : Int) (num : Nat → K) (int : Nat → Int) (h : now < q) :
    ∀ fn ∈ ["get_market_price", "get_fundamental_price", "get_mid_price", "get_last_executed_price",
            "get_executed_volume", "get_executed_total_price", "get_n_buy_order", "get_n_sell_order"],
      resultG obs (rhoGet now q num int) getEnv FUEL ("Market." ++ fn) [.ref 5, .int (.atom 2)] getSt
        = .err (.raise "AssertionError") := by
  intro fn hfn
  simp only [List.mem_cons, List.not_mem_nil, or_false] at hfn
  rcases hfn with rfl | rfl | rfl | rfl | rfl | rfl | rfl | rfl
  all_goals apply resultG_eq_of_pathsP (by intro x; simp)
  · show ∀ p ∈ getPaths "get_market_price", _
    py_paths gtP_mp
    all_goals intro hp
    all_goals simp [BTerm.eval, ITerm.eval, rhoGet, Obs.eval] at hp ⊢
    all_goals omega
  · show ∀ p ∈ getPaths "get_fundamental_price", _
    py_paths gtP_fp
    all_goals intro hp
    all_goals simp [BTerm.eval, ITerm.eval, rhoGet, Obs.eval] at hp ⊢
    all_goals omega
  · show ∀ p ∈ getPaths "get_mid_price", _
    py_paths gtP_mid
    all_goals intro hp
    all_goals simp [BTerm.eval, ITerm.eval, rhoGet, Obs.eval] at hp ⊢
    all_goals omega
  · show ∀ p ∈ getPaths "get_last_executed_price", _
    py_paths gtP_last
    all_goals intro hp
    all_goals simp [BTerm.eval, ITerm.eval, rhoGet, Obs.eval] at hp ⊢
    all_goals omega
  · show ∀ p ∈ getPaths "get_executed_volume", _
    py_paths gtP_vol
    all_goals intro hp
    all_goals simp [BTerm.eval, ITerm.eval, rhoGet, Obs.eval] at hp ⊢
    all_goals omega
  · show ∀ p ∈ getPaths "get_executed_total_price", _
    py_paths gtP_turn
    all_goals intro hp
    all_goals simp [BTerm.eval, ITerm.eval, rhoGet, Obs.eval] at hp ⊢
    all_goals omega
  · show ∀ p ∈ getPaths "get_n_buy_order", _
    py_paths gtP_nb
    all_goals intro hp
    all_goals simp [BTerm.eval, ITerm.eval, rhoGet, Obs.eval] at hp ⊢
    all_goals omega
  · show ∀ p ∈ getPaths "get_n_sell_order", _
    py_paths gtP_ns
    all_goals intro hp
    all_goals simp [BTerm.eval, ITerm.eval, rhoGet, Obs.eval] at hp ⊢
    all_goals omega

/-- **a query for a past or the present time answers the recorded slot**: the market price and the
fundamental price of slot `q` (`0 ≤ q ≤ now < 4`) -/
theorem getters_src_past_answered (now q : Int) (num : Nat → K) (int : Nat → Int) (h0 : 0 ≤ q) (h1 : q ≤ now)
    (h2 : now < 4) :
    resultG obs (rhoGet now q num int) getEnv FUEL "Market.get_market_price" [.ref 5, .int (.atom 2)] getSt
      = .num (num (10 + q.toNat)) ∧
    resultG obs (rhoGet now q num int) getEnv FUEL "Market.get_fundamental_price" [.ref 5, .int (.atom 2)] getSt
      = .num (num (20 + q.toNat)) ∧
    resultG obs (rhoGet now q num int) getEnv FUEL "Market.get_executed_volume" [.ref 5, .int (.atom 2)] getSt
      = .int (int (50 + q.toNat)) := by
  refine ⟨?_, ?_, ?_⟩
  · apply resultG_eq_of_pathsP (by intro x; simp)
    show ∀ p ∈ getPaths "get_market_price", _
    py_paths gtP_mp
    all_goals intro hp
    all_goals simp [BTerm.eval, ITerm.eval, NTerm.eval, rhoGet, Obs.eval] at hp ⊢
    all_goals first
      | omega
      | (obtain ⟨_, hq⟩ := hp; subst hq; rfl)
      | (obtain ⟨_, _, hq⟩ := hp; subst hq; rfl)
      | (obtain ⟨_, _, _, hq⟩ := hp; subst hq; rfl)
      | (obtain ⟨_, _, _, _, hq⟩ := hp; subst hq; rfl)
  · apply resultG_eq_of_pathsP (by intro x; simp)
    show ∀ p ∈ getPaths "get_fundamental_price", _
    py_paths gtP_fp
    all_goals intro hp
    all_goals simp [BTerm.eval, ITerm.eval, NTerm.eval, rhoGet, Obs.eval] at hp ⊢
    all_goals first
      | omega
      | (obtain ⟨_, hq⟩ := hp; subst hq; rfl)
      | (obtain ⟨_, _, hq⟩ := hp; subst hq; rfl)
      | (obtain ⟨_, _, _, hq⟩ := hp; subst hq; rfl)
      | (obtain ⟨_, _, _, _, hq⟩ := hp; subst hq; rfl)
  · apply resultG_eq_of_pathsP (by intro x; simp)
    show ∀ p ∈ getPaths "get_executed_volume", _
    py_paths gtP_vol
    all_goals intro hp
    all_goals simp [BTerm.eval, ITerm.eval, NTerm.eval, rhoGet, Obs.eval] at hp ⊢
    all_goals first
      | omega
      | (obtain ⟨_, hq⟩ := hp; subst hq; rfl)
      | (obtain ⟨_, _, hq⟩ := hp; subst hq; rfl)
      | (obtain ⟨_, _, _, hq⟩ := hp; subst hq; rfl)
      | (obtain ⟨_, _, _, _, hq⟩ := hp; subst hq; rfl)

end Pams.Src
