/-
Path enumerations of `Market._add_order` (see SrcAddDefs.lean): `nf%` computes the pruned paths of the
symbolic run of the *current* translated source, `rfl` makes the kernel re-check them.
-/
import PamsLemmas.EvalNf
import PamsLemmas.SrcAddDefs

namespace Pams.Src
open Pams Pams.Py
set_option maxRecDepth 1000000

theorem addP_ftff : addPaths false true false false 0 .none false false = evalnf% (addPaths false true false false 0 .none false false) := by kernel_rfl
theorem addP_ftft : addPaths false true false false 0 .none true false = evalnf% (addPaths false true false false 0 .none true false) := by kernel_rfl
theorem addP_fttf : addPaths false true true false 0 .none false false = evalnf% (addPaths false true true false 0 .none false false) := by kernel_rfl
theorem addP_fttt : addPaths false true true false 0 .none true false = evalnf% (addPaths false true true false 0 .none true false) := by kernel_rfl
theorem addP_ffff : addPaths false false false false 0 .none false false = evalnf% (addPaths false false false false 0 .none false false) := by kernel_rfl
theorem addP_ffft : addPaths false false false false 0 .none true false = evalnf% (addPaths false false false false 0 .none true false) := by kernel_rfl
theorem addP_fftf : addPaths false false true false 0 .none false false = evalnf% (addPaths false false true false 0 .none false false) := by kernel_rfl
theorem addP_fftt : addPaths false false true false 0 .none true false = evalnf% (addPaths false false true false 0 .none true false) := by kernel_rfl

end Pams.Src
