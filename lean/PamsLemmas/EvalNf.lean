/-
`evalnf%` — the only place in this project where compiled (hence `unsafe`) evaluation is used, kept in
a file of its own so that the source audit (harness/run.py) can allow the two keywords here and nowhere
else.  What it produces is a *candidate* right-hand side for an equation `e = evalnf% e`; the equation is
then proved by `kernel_rfl`, i.e. the kernel evaluates `e` itself and compares.  A wrong candidate makes
the theorem fail to check; it cannot make a false theorem check.  No constant defined here can occur in
a proof term (they live in `MetaM`).
-/
import PamsLemmas.PySem
import Lean

namespace Pams.Py
/-! ### `evalnf%`: the same normal form, computed by the compiled interpreter

`nf%` normalises with the elaborator's `reduce`, which is slow on the interpreter (tens of seconds for
a few dozen paths).  `evalnf%` runs the *compiled* definitions on the closed term and writes the value
back as a term, constructor by constructor, in exactly the shape `reduce` produces (raw numerals,
`Int.ofNat`, string literals).  Nothing of this is trusted: the result is only ever used as the right
hand side of `e = evalnf% e`, which the kernel checks by evaluating `e` itself (`kernel_rfl`). -/
namespace Quote
open Lean Meta

def qNat (n : Nat) : Lean.Expr := mkRawNatLit n
def qInt : Int → Lean.Expr
  | .ofNat n => mkApp (mkConst ``Int.ofNat) (qNat n)
  | .negSucc n => mkApp (mkConst ``Int.negSucc) (qNat n)
def qBool (b : Bool) : Lean.Expr := mkConst (if b then ``Bool.true else ``Bool.false)
def qStr (s : String) : Lean.Expr := mkStrLit s

def qList (ty : Lean.Expr) (l : List Lean.Expr) : Lean.Expr :=
  l.foldr (fun x acc => mkApp3 (mkConst ``List.cons [levelZero]) ty x acc) (mkApp (mkConst ``List.nil [levelZero]) ty)

mutual
partial def qI : ITerm → Lean.Expr
  | .lit i => mkApp (mkConst ``ITerm.lit) (qInt i)
  | .atom k => mkApp (mkConst ``ITerm.atom) (qNat k)
  | .add a b => mkApp2 (mkConst ``ITerm.add) (qI a) (qI b)
  | .sub a b => mkApp2 (mkConst ``ITerm.sub) (qI a) (qI b)
  | .mul a b => mkApp2 (mkConst ``ITerm.mul) (qI a) (qI b)
  | .neg a => mkApp (mkConst ``ITerm.neg) (qI a)
  | .fdiv a b => mkApp2 (mkConst ``ITerm.fdiv) (qI a) (qI b)
  | .fmod a b => mkApp2 (mkConst ``ITerm.fmod) (qI a) (qI b)
  | .ofBool b => mkApp (mkConst ``ITerm.ofBool) (qB b)
  | .floor x => mkApp (mkConst ``ITerm.floor) (qN x)
  | .ceil x => mkApp (mkConst ``ITerm.ceil) (qN x)
partial def qN : NTerm → Lean.Expr
  | .atom k => mkApp (mkConst ``NTerm.atom) (qNat k)
  | .ofInt a => mkApp (mkConst ``NTerm.ofInt) (qI a)
  | .add a b => mkApp2 (mkConst ``NTerm.add) (qN a) (qN b)
  | .sub a b => mkApp2 (mkConst ``NTerm.sub) (qN a) (qN b)
  | .mul a b => mkApp2 (mkConst ``NTerm.mul) (qN a) (qN b)
  | .div a b => mkApp2 (mkConst ``NTerm.div) (qN a) (qN b)
  | .neg a => mkApp (mkConst ``NTerm.neg) (qN a)
  | .fmod a b => mkApp2 (mkConst ``NTerm.fmod) (qN a) (qN b)
  | .exp a => mkApp (mkConst ``NTerm.exp) (qN a)
  | .log a => mkApp (mkConst ``NTerm.log) (qN a)
  | .sqrt a => mkApp (mkConst ``NTerm.sqrt) (qN a)
partial def qB : BTerm → Lean.Expr
  | .lit b => mkApp (mkConst ``BTerm.lit) (qBool b)
  | .atom k => mkApp (mkConst ``BTerm.atom) (qNat k)
  | .not b => mkApp (mkConst ``BTerm.not) (qB b)
  | .ilt a b => mkApp2 (mkConst ``BTerm.ilt) (qI a) (qI b)
  | .ile a b => mkApp2 (mkConst ``BTerm.ile) (qI a) (qI b)
  | .ieq a b => mkApp2 (mkConst ``BTerm.ieq) (qI a) (qI b)
  | .nlt a b => mkApp2 (mkConst ``BTerm.nlt) (qN a) (qN b)
  | .nle a b => mkApp2 (mkConst ``BTerm.nle) (qN a) (qN b)
  | .neq a b => mkApp2 (mkConst ``BTerm.neq) (qN a) (qN b)
end

def qErr : Err → Lean.Expr
  | .raise e => mkApp (mkConst ``Err.raise) (qStr e)
  | .fuel => mkConst ``Err.fuel
  | .unsupported w => mkApp (mkConst ``Err.unsupported) (qStr w)
  | .unbound x => mkApp (mkConst ``Err.unbound) (qStr x)

partial def qObs : Obs → Lean.Expr
  | .bool t => mkApp (mkConst ``Obs.bool) (qB t)
  | .int t => mkApp (mkConst ``Obs.int) (qI t)
  | .num t => mkApp (mkConst ``Obs.num) (qN t)
  | .none => mkConst ``Obs.none
  | .ref a => mkApp (mkConst ``Obs.ref) (qNat a)
  | .str s => mkApp (mkConst ``Obs.str) (qStr s)
  | .other => mkConst ``Obs.other
  | .absent => mkConst ``Obs.absent
  | .tuple l => mkApp (mkConst ``Obs.tuple) (qList (mkConst ``Obs) (l.map qObs))
  | .err e => mkApp (mkConst ``Obs.err) (qErr e)

def condTy : Lean.Expr := mkApp2 (mkConst ``Prod [levelZero, levelZero]) (mkConst ``BTerm) (mkConst ``Bool)
def condsTy : Lean.Expr := mkApp (mkConst ``List [levelZero]) condTy
def pathTy : Lean.Expr := mkApp2 (mkConst ``Prod [levelZero, levelZero]) condsTy (mkConst ``Obs)
def pathsTy : Lean.Expr := mkApp (mkConst ``List [levelZero]) pathTy

def qCond (c : BTerm × Bool) : Lean.Expr :=
  mkApp4 (mkConst ``Prod.mk [levelZero, levelZero]) (mkConst ``BTerm) (mkConst ``Bool) (qB c.1) (qBool c.2)

def qPath (p : List (BTerm × Bool) × Obs) : Lean.Expr :=
  mkApp4 (mkConst ``Prod.mk [levelZero, levelZero]) condsTy (mkConst ``Obs) (qList condTy (p.1.map qCond)) (qObs p.2)

def qPaths (ps : List (List (BTerm × Bool) × Obs)) : Lean.Expr := qList pathTy (ps.map qPath)

unsafe def evalPathsUnsafe (e : Lean.Expr) : MetaM (List (List (BTerm × Bool) × Obs)) :=
  evalExpr (List (List (BTerm × Bool) × Obs)) pathsTy e

@[implemented_by evalPathsUnsafe]
opaque evalPaths (e : Lean.Expr) : MetaM (List (List (BTerm × Bool) × Obs))

end Quote

open Lean Elab Term Meta in
/-- `evalnf% e` for a closed `e : List (List (BTerm × Bool) × Obs)` (a list of paths): its value, computed
by the compiled code, as a term (to be used as `e = evalnf% e := by kernel_rfl`) -/
elab "evalnf% " e:term : term => do
  let e ← elabTermEnsuringType e (some Quote.pathsTy)
  let e ← instantiateMVars e
  let v ← Quote.evalPaths e
  return Quote.qPaths v

end Pams.Py
