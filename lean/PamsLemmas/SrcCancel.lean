/-
`Market._cancel_order` of the current source = the model's `Market.cancel`: the shape-by-shape theorems of
SrcCancel1–2 combined over side and kind of the cancelled order, one theorem per position.
-/
import PamsLemmas.SrcCancel1
import PamsLemmas.SrcCancel2

namespace Pams.Src
open Pams Pams.Py
variable {K : Type} [LinearOrder K] [NumOpsC K]

/-- **cancelling an order that is the only order of its side**: for either side, limit or market order, all prices, volumes,
ids, times and agents, the current source marks the order, stamps the cancel, leaves the queues, the
mid-quote and the market price, and returns the log exactly as `Market.cancel` of the model says. -/
theorem cancel_src_alone (m : Market K) (a c d : Order K) (dflt pc pd md mp : K) (gk : Gone)
    (hbook : if a.isBuy then m.buys = [a] ∧ m.sells = [d] else m.buys = [d] ∧ m.sells = [a])
    (hta : a.ttl = none) (hc : c.isBuy = a.isBuy) (hpc : c.price = some pc) (hd : d.isBuy = !a.isBuy)
    (hpd : d.price = some pd) (ht : m.time = 0) (hl : m.cur.last = none) (hmid : m.cur.mid = some md)
    (hmk : m.cur.market = some mp) (hac : a.id ≠ c.id) (had : a.id ≠ d.id) (hcd : c.id ≠ d.id)
    (h2 : (NumOpsC.ofInt 2 : K) ≠ NumOpsC.ofInt 0) (hg : True) :
    resultG cancelObs (rhoCancel m a c d dflt) env XFUEL "Market._cancel_order" [.ref 5, .ref 2]
        (stCancel a.isBuy a.price.isSome .alone)
      = modelCancelObs a (m.cancel (srcOps K) a.id) := by
  cases ha : a.isBuy with
  | false =>
    rw [ha] at hbook hc hd
    simp only [Bool.false_eq_true, if_false, Bool.not_false] at hbook hd
    cases hpa : a.price with
    | none => exact cancel_src_ff_alone m a c d dflt dflt pc pd md mp gk hbook.1 hbook.2 ha hpa hta hc hpc hd hpd ht hl hmid hmk hac had hcd h2 hg
    | some pa => exact cancel_src_ft_alone m a c d dflt pa pc pd md mp gk hbook.1 hbook.2 ha hpa hta hc hpc hd hpd ht hl hmid hmk hac had hcd h2 hg
  | true =>
    rw [ha] at hbook hc hd
    simp only [if_true, Bool.not_true] at hbook hd
    cases hpa : a.price with
    | none => exact cancel_src_tf_alone m a c d dflt dflt pc pd md mp gk hbook.1 hbook.2 ha hpa hta hc hpc hd hpd ht hl hmid hmk hac had hcd h2 hg
    | some pa => exact cancel_src_tt_alone m a c d dflt pa pc pd md mp gk hbook.1 hbook.2 ha hpa hta hc hpc hd hpd ht hl hmid hmk hac had hcd h2 hg

/-- **cancelling an order that is on top of another order `c` of its side (`c` does not outrank it)**: for either side, limit or market order, all prices, volumes,
ids, times and agents, the current source marks the order, stamps the cancel, leaves the queues, the
mid-quote and the market price, and returns the log exactly as `Market.cancel` of the model says. -/
theorem cancel_src_top (m : Market K) (a c d : Order K) (dflt pc pd md mp : K) (gk : Gone)
    (hbook : if a.isBuy then m.buys = [a, c] ∧ m.sells = [d] else m.buys = [d] ∧ m.sells = [a, c])
    (hta : a.ttl = none) (hc : c.isBuy = a.isBuy) (hpc : c.price = some pc) (hd : d.isBuy = !a.isBuy)
    (hpd : d.price = some pd) (ht : m.time = 0) (hl : m.cur.last = none) (hmid : m.cur.mid = some md)
    (hmk : m.cur.market = some mp) (hac : a.id ≠ c.id) (had : a.id ≠ d.id) (hcd : c.id ≠ d.id)
    (h2 : (NumOpsC.ofInt 2 : K) ≠ NumOpsC.ofInt 0) (hg : c.lt a = false) :
    resultG cancelObs (rhoCancel m a c d dflt) env XFUEL "Market._cancel_order" [.ref 5, .ref 2]
        (stCancel a.isBuy a.price.isSome .top)
      = modelCancelObs a (m.cancel (srcOps K) a.id) := by
  cases ha : a.isBuy with
  | false =>
    rw [ha] at hbook hc hd
    simp only [Bool.false_eq_true, if_false, Bool.not_false] at hbook hd
    cases hpa : a.price with
    | none => exact cancel_src_ff_top m a c d dflt dflt pc pd md mp gk hbook.1 hbook.2 ha hpa hta hc hpc hd hpd ht hl hmid hmk hac had hcd h2 hg
    | some pa => exact cancel_src_ft_top m a c d dflt pa pc pd md mp gk hbook.1 hbook.2 ha hpa hta hc hpc hd hpd ht hl hmid hmk hac had hcd h2 hg
  | true =>
    rw [ha] at hbook hc hd
    simp only [if_true, Bool.not_true] at hbook hd
    cases hpa : a.price with
    | none => exact cancel_src_tf_top m a c d dflt dflt pc pd md mp gk hbook.1 hbook.2 ha hpa hta hc hpc hd hpd ht hl hmid hmk hac had hcd h2 hg
    | some pa => exact cancel_src_tt_top m a c d dflt pa pc pd md mp gk hbook.1 hbook.2 ha hpa hta hc hpc hd hpd ht hl hmid hmk hac had hcd h2 hg

/-- **cancelling an order that is behind another order `c` of its side (the removal is `list.remove` + `heapify`)**: for either side, limit or market order, all prices, volumes,
ids, times and agents, the current source marks the order, stamps the cancel, leaves the queues, the
mid-quote and the market price, and returns the log exactly as `Market.cancel` of the model says. -/
theorem cancel_src_second (m : Market K) (a c d : Order K) (dflt pc pd md mp : K) (gk : Gone)
    (hbook : if a.isBuy then m.buys = [c, a] ∧ m.sells = [d] else m.buys = [d] ∧ m.sells = [c, a])
    (hta : a.ttl = none) (hc : c.isBuy = a.isBuy) (hpc : c.price = some pc) (hd : d.isBuy = !a.isBuy)
    (hpd : d.price = some pd) (ht : m.time = 0) (hl : m.cur.last = none) (hmid : m.cur.mid = some md)
    (hmk : m.cur.market = some mp) (hac : a.id ≠ c.id) (had : a.id ≠ d.id) (hcd : c.id ≠ d.id)
    (h2 : (NumOpsC.ofInt 2 : K) ≠ NumOpsC.ofInt 0) (hg : True) :
    resultG cancelObs (rhoCancel m a c d dflt) env XFUEL "Market._cancel_order" [.ref 5, .ref 2]
        (stCancel a.isBuy a.price.isSome .second)
      = modelCancelObs a (m.cancel (srcOps K) a.id) := by
  cases ha : a.isBuy with
  | false =>
    rw [ha] at hbook hc hd
    simp only [Bool.false_eq_true, if_false, Bool.not_false] at hbook hd
    cases hpa : a.price with
    | none => exact cancel_src_ff_second m a c d dflt dflt pc pd md mp gk hbook.1 hbook.2 ha hpa hta hc hpc hd hpd ht hl hmid hmk hac had hcd h2 hg
    | some pa => exact cancel_src_ft_second m a c d dflt pa pc pd md mp gk hbook.1 hbook.2 ha hpa hta hc hpc hd hpd ht hl hmid hmk hac had hcd h2 hg
  | true =>
    rw [ha] at hbook hc hd
    simp only [if_true, Bool.not_true] at hbook hd
    cases hpa : a.price with
    | none => exact cancel_src_tf_second m a c d dflt dflt pc pd md mp gk hbook.1 hbook.2 ha hpa hta hc hpc hd hpd ht hl hmid hmk hac had hcd h2 hg
    | some pa => exact cancel_src_tt_second m a c d dflt pa pc pd md mp gk hbook.1 hbook.2 ha hpa hta hc hpc hd hpd ht hl hmid hmk hac had hcd h2 hg

/-- **cancelling an order that is no longer in the book (it left earlier with the volume recorded in `gone`), its side empty**: for either side, limit or market order, all prices, volumes,
ids, times and agents, the current source marks the order, stamps the cancel, leaves the queues, the
mid-quote and the market price, and returns the log exactly as `Market.cancel` of the model says. -/
theorem cancel_src_goneEmpty (m : Market K) (a c d : Order K) (dflt pc pd md mp : K) (gk : Gone)
    (hbook : if a.isBuy then m.buys = [] ∧ m.sells = [d] else m.buys = [d] ∧ m.sells = [])
    (hta : a.ttl = none) (hc : c.isBuy = a.isBuy) (hpc : c.price = some pc) (hd : d.isBuy = !a.isBuy)
    (hpd : d.price = some pd) (ht : m.time = 0) (hl : m.cur.last = none) (hmid : m.cur.mid = some md)
    (hmk : m.cur.market = some mp) (hac : a.id ≠ c.id) (had : a.id ≠ d.id) (hcd : c.id ≠ d.id)
    (h2 : (NumOpsC.ofInt 2 : K) ≠ NumOpsC.ofInt 0) (hg : m.gone.find? (fun g => g.1.id = a.id) = some (a, gk)) :
    resultG cancelObs (rhoCancel m a c d dflt) env XFUEL "Market._cancel_order" [.ref 5, .ref 2]
        (stCancel a.isBuy a.price.isSome .goneEmpty)
      = modelCancelObs a (m.cancel (srcOps K) a.id) := by
  cases ha : a.isBuy with
  | false =>
    rw [ha] at hbook hc hd
    simp only [Bool.false_eq_true, if_false, Bool.not_false] at hbook hd
    cases hpa : a.price with
    | none => exact cancel_src_ff_goneEmpty m a c d dflt dflt pc pd md mp gk hbook.1 hbook.2 ha hpa hta hc hpc hd hpd ht hl hmid hmk hac had hcd h2 hg
    | some pa => exact cancel_src_ft_goneEmpty m a c d dflt pa pc pd md mp gk hbook.1 hbook.2 ha hpa hta hc hpc hd hpd ht hl hmid hmk hac had hcd h2 hg
  | true =>
    rw [ha] at hbook hc hd
    simp only [if_true, Bool.not_true] at hbook hd
    cases hpa : a.price with
    | none => exact cancel_src_tf_goneEmpty m a c d dflt dflt pc pd md mp gk hbook.1 hbook.2 ha hpa hta hc hpc hd hpd ht hl hmid hmk hac had hcd h2 hg
    | some pa => exact cancel_src_tt_goneEmpty m a c d dflt pa pc pd md mp gk hbook.1 hbook.2 ha hpa hta hc hpc hd hpd ht hl hmid hmk hac had hcd h2 hg

/-- **cancelling an order that is no longer in the book, another order `c` rests on its side**: for either side, limit or market order, all prices, volumes,
ids, times and agents, the current source marks the order, stamps the cancel, leaves the queues, the
mid-quote and the market price, and returns the log exactly as `Market.cancel` of the model says. -/
theorem cancel_src_goneOther (m : Market K) (a c d : Order K) (dflt pc pd md mp : K) (gk : Gone)
    (hbook : if a.isBuy then m.buys = [c] ∧ m.sells = [d] else m.buys = [d] ∧ m.sells = [c])
    (hta : a.ttl = none) (hc : c.isBuy = a.isBuy) (hpc : c.price = some pc) (hd : d.isBuy = !a.isBuy)
    (hpd : d.price = some pd) (ht : m.time = 0) (hl : m.cur.last = none) (hmid : m.cur.mid = some md)
    (hmk : m.cur.market = some mp) (hac : a.id ≠ c.id) (had : a.id ≠ d.id) (hcd : c.id ≠ d.id)
    (h2 : (NumOpsC.ofInt 2 : K) ≠ NumOpsC.ofInt 0) (hg : m.gone.find? (fun g => g.1.id = a.id) = some (a, gk)) :
    resultG cancelObs (rhoCancel m a c d dflt) env XFUEL "Market._cancel_order" [.ref 5, .ref 2]
        (stCancel a.isBuy a.price.isSome .goneOther)
      = modelCancelObs a (m.cancel (srcOps K) a.id) := by
  cases ha : a.isBuy with
  | false =>
    rw [ha] at hbook hc hd
    simp only [Bool.false_eq_true, if_false, Bool.not_false] at hbook hd
    cases hpa : a.price with
    | none => exact cancel_src_ff_goneOther m a c d dflt dflt pc pd md mp gk hbook.1 hbook.2 ha hpa hta hc hpc hd hpd ht hl hmid hmk hac had hcd h2 hg
    | some pa => exact cancel_src_ft_goneOther m a c d dflt pa pc pd md mp gk hbook.1 hbook.2 ha hpa hta hc hpc hd hpd ht hl hmid hmk hac had hcd h2 hg
  | true =>
    rw [ha] at hbook hc hd
    simp only [if_true, Bool.not_true] at hbook hd
    cases hpa : a.price with
    | none => exact cancel_src_tf_goneOther m a c d dflt dflt pc pd md mp gk hbook.1 hbook.2 ha hpa hta hc hpc hd hpd ht hl hmid hmk hac had hcd h2 hg
    | some pa => exact cancel_src_tt_goneOther m a c d dflt pa pc pd md mp gk hbook.1 hbook.2 ha hpa hta hc hpc hd hpd ht hl hmid hmk hac had hcd h2 hg

end Pams.Src
