/-
Tactics shared by the `_add_order` source theorems.
-/
import PamsLemmas.SrcAddDefs
import PamsLemmas.SrcMarket

namespace Pams.Src
open Pams Pams.Py

theorem int_zero_eq_cast (n : Nat) : ((0 : Int) = (n : Int)) ↔ 0 = n := by omega
theorem int_cast_eq_zero (n : Nat) : ((n : Int) = 0) ↔ n = 0 := by omega
theorem int_cast_eq_cast (a b : Nat) : ((a : Int) = (b : Int)) ↔ a = b := by omega
theorem int_cast_lt_cast (a b : Nat) : ((a : Int) < (b : Int)) ↔ a < b := by omega
theorem int_cast_le_cast (a b : Nat) : ((a : Int) ≤ (b : Int)) ↔ a ≤ b := by omega
theorem int_zero_lt_cast (n : Nat) : ((0 : Int) < (n : Int)) ↔ 0 < n := by omega

/-- closes the per-path goals of an `_add_order` source theorem against `Market.addOrder` -/
macro "add_paths_finish" : tactic =>
  `(tactic| (all_goals intro h
             all_goals simp [BTerm.eval, ITerm.eval, NTerm.eval, rhoAdd, Obs.eval, Obs.evalList, int_zero_eq_cast,
               int_cast_eq_zero, int_cast_eq_cast, int_cast_lt_cast, int_cast_le_cast, int_zero_lt_cast] at h ⊢
             all_goals simp [modelAddObs, Market.addOrder, Market.refresh, midOf, marketRule, Book.insert,
               Book.bestPrice, Order.lt, gtLt, cmpPlaced, snapSrc, srcOpsT, srcOps, cOpt, cOptNat]
             all_goals try grind (splits := 40)
             all_goals try (revert h; simp only [and_imp]; intros; subst_vars; simp_all [apply_ite]; done)
             all_goals try (revert h; simp only [and_imp]; intros; subst_vars; simp_all [apply_ite]; grind (splits := 40))))

end Pams.Src
