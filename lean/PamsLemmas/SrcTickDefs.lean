/-
`Market._update_time` as it stands in /repo (translated: `PamsGen.Code`, with `OrderBook._set_time`,
`_check_expired_orders` — comprehensions over the expiry index, `list.remove`, `heapify`, `dict.pop` —)
against the model `Market.tick` — setting and vocabulary.

Shape of the state: market 0 at time 0 with two pre-allocated slots per series; the buy queue holds
`a` (address 1) in front of `c` (address 3), each with or without a time-to-live; the expiry index has
one bucket per order with a time-to-live (keys: int atoms 15 and 35, valued `placedAt + ttl`); the sell
side is empty.  `_fill_until` (storage growth) is an extern call that changes nothing here.
-/
import PamsLemmas.SrcAddDefs

namespace Pams.Src
open Pams Pams.Py

variable {K : Type} [LinearOrder K] [NumOpsC K]

def tickBook (ta tc : Bool) : String → Option Val
  | "__class__" => some (.str "OrderBook")
  | "priority_queue" => some (.list [.ref 1, .ref 3])
  | "is_buy" => some (.bool (.lit true))
  | "time" => some (.int (.lit 0))
  | "expire_time_list" =>
    some (.dict ((if ta then [Val.int (.atom 15)] else []) ++ (if tc then [Val.int (.atom 35)] else []))
                ((if ta then [Val.list [.ref 1]] else []) ++ (if tc then [Val.list [.ref 3]] else [])))
  | _ => none

def tickMarket (hasLast hasMid : Bool) : String → Option Val
  | "__class__" => some (.str "Market")
  | "market_id" => some (.int (.lit 0))
  | "_is_running" => some (.bool (.atom 50))
  | "time" => some (.int (.lit 0))
  | "tick_size" => some (.num (.atom 50))
  | "buy_order_book" => some (.ref 6)
  | "sell_order_book" => some (.ref 7)
  | "_next_order_id" => some (.int (.atom 51))
  | "_n_buy_orders" => some (.list [.int (.atom 52), .int (.lit 0)])
  | "_n_sell_orders" => some (.list [.int (.atom 53), .int (.lit 0)])
  | "_executed_volumes" => some (.list [.int (.atom 54), .int (.lit 0)])
  | "_executed_total_prices" => some (.list [.num (.atom 51), .num (.ofInt (.lit 0))])
  | "_last_executed_prices" => some (.list [optNum hasLast 52, .none])
  | "_mid_prices" => some (.list [optNum hasMid 54, .none])
  | "_market_prices" => some (.list [.num (.atom 53), .none])
  | "_fundamental_prices" => some (.list [.num (.atom 55), .none])
  | "logger" => some .none
  | _ => none

def tickHeap (ta tc hasLast hasMid : Bool) : Nat → String → Option Val :=
  fun addr =>
    if addr = 1 then mOrder 1 true true ta else if addr = 3 then mOrder 3 true true tc
    else if addr = 5 then tickMarket hasLast hasMid else if addr = 6 then tickBook ta tc
    else if addr = 7 then bookObj false []
    else if addr = 100 then kindObj 0 else if addr = 101 then kindObj 1 else fun _ => none

def stTick (ta tc hasLast hasMid : Bool) : St := { heap := tickHeap ta tc hasLast hasMid, calls := [] }

/-- `_fill_until` grows the storage; with two slots allocated it has nothing to do -/
def tickExt : Ext := fun st _ fn _ =>
  if fn = "_fill_until" then some (.none, st) else none

def tickEnv : Env := { prog := PamsGen.Code.prog, globals := globals, ext := tickExt }

def slot1 (st : St) (f : String) : Obs :=
  match st.heap 5 f with
  | some (.list [_, v]) => Obs.ofVal v
  | _ => .other

/-- what is observed of a clock step: the clocks, the buy queue and the keys of its expiry index, and
the new slot of every series -/
def tickObs : Except Py.Err (Val × St) → Obs
  | .ok (_, st) =>
    .tuple [ Obs.ofOpt (st.heap 5 "time"), Obs.ofOpt (st.heap 6 "time"), Obs.ofOpt (st.heap 7 "time"),
             listObs st 6 "priority_queue",
             (match st.heap 6 "expire_time_list" with | some (.dict ks _) => .tuple (ks.map Obs.ofVal) | _ => .other),
             slot1 st "_last_executed_prices", slot1 st "_mid_prices", slot1 st "_market_prices",
             slot1 st "_fundamental_prices", slot1 st "_executed_volumes", slot1 st "_n_buy_orders",
             slot1 st "_n_sell_orders" ]
  | .error e => .err e

def tickPaths (ta tc hasLast hasMid : Bool) :=
  obsPathsPG tickObs tickEnv XFUEL "Market._update_time" [.ref 5, .num (.atom 56)] (stTick ta tc hasLast hasMid)

/-- valuation: the two resting orders, the market, the next fundamental price; the expiry keys are
`placedAt + ttl` -/
def rhoTick (m : Market K) (a c : Order K) (fund dflt : K) : Rho K :=
  { i := fun k =>
      if k = 10 then a.id else if k = 11 then a.placedAt else if k = 12 then a.agent else if k = 13 then a.vol
      else if k = 14 then (a.ttl.getD 0 : Nat) else if k = 15 then (a.placedAt + a.ttl.getD 0 : Nat)
      else if k = 30 then c.id else if k = 31 then c.placedAt else if k = 32 then c.agent else if k = 33 then c.vol
      else if k = 34 then (c.ttl.getD 0 : Nat) else if k = 35 then (c.placedAt + c.ttl.getD 0 : Nat)
      else if k = 51 then m.nextId else if k = 52 then m.cur.nBuy else if k = 53 then m.cur.nSell
      else if k = 54 then m.cur.execVol else 0
    n := fun k =>
      if k = 1 then a.price.getD dflt else if k = 3 then c.price.getD dflt
      else if k = 51 then m.cur.turnover else if k = 52 then m.cur.last.getD dflt
      else if k = 53 then m.cur.market.getD dflt else if k = 54 then m.cur.mid.getD dflt
      else if k = 55 then m.cur.fund.getD dflt else if k = 56 then fund else dflt
    b := fun k => if k = 50 then m.running else false }

/-- the observation `tickObs` of the model's `Market.tick` -/
def modelTickObs (a c : Order K) (res : Market K × List (ExpiryLog K)) : CObs K :=
  let m := res.1
  let ref (o : Order K) : CObs K := if o.id = a.id then .ref 1 else .ref 3
  let key (o : Order K) : List (CObs K) := match o.ttl with | some t => [.int ((o.placedAt + t : Nat) : Int)] | none => []
  .tuple [ .int m.time, .int m.time, .int m.time, .tuple (m.buys.map ref), .tuple (m.buys.flatMap key),
           cOpt m.cur.last, cOpt m.cur.mid, cOpt m.cur.market, cOpt m.cur.fund,
           .int m.cur.execVol, .int m.cur.nBuy, .int m.cur.nSell ]
  where _unused := c

end Pams.Src
