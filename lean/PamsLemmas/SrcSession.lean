/-
`Session.setup` as it stands in /repo (translated: `PamsGen.Code`) reads the session parameters off the
settings exactly: every configured value — whatever it is, 0 and `False` included — becomes the
attribute, the deprecated keys set the same attributes as their replacements, giving both is refused,
a missing required key is refused.  By symbolic execution of the source.

The session object lives at address 8 (optional attributes pre-set to atoms 81 / 82 / num 83); the
settings are a dictionary value with string keys and atom values.
-/
import PamsLemmas.EvalNf
import PamsGen.Code
import PamsLemmas.SrcOrder

namespace Pams.Src
open Pams Pams.Py

variable {K : Type} [LinearOrder K] [NumOpsC K]

def sessionObj0 : String → Option Val
  | "__class__" => some (.str "Session")
  | "iteration_steps" => some (.int (.atom 80))
  | "max_normal_orders" => some (.int (.atom 81))
  | "max_high_frequency_orders" => some (.int (.atom 82))
  | "high_frequency_submission_rate" => some (.num (.atom 83))
  | "with_order_placement" => some (.bool (.atom 84))
  | "with_order_execution" => some (.bool (.atom 85))
  | "with_print" => some (.bool (.atom 86))
  | _ => none

def sessionSt : St := { heap := fun a => if a = 8 then sessionObj0 else fun _ => none, calls := [] }

/-- the four required keys -/
def reqKeys : List Val := [.str "iterationSteps", .str "withOrderPlacement", .str "withOrderExecution", .str "withPrint"]
def reqVals : List Val := [.int (.atom 1), .bool (.atom 2), .bool (.atom 3), .bool (.atom 4)]

def settingsOf (extraKeys : List String) (extraVals : List Val) : Val :=
  .dict (reqKeys ++ extraKeys.map Val.str) (reqVals ++ extraVals)

/-- the attributes of the session afterwards -/
def sessionObs : Except Py.Err (Val × St) → Obs
  | .ok (_, st) =>
    .tuple [Obs.ofOpt (st.heap 8 "iteration_steps"), Obs.ofOpt (st.heap 8 "with_order_placement"),
            Obs.ofOpt (st.heap 8 "with_order_execution"), Obs.ofOpt (st.heap 8 "with_print"),
            Obs.ofOpt (st.heap 8 "max_normal_orders"), Obs.ofOpt (st.heap 8 "max_high_frequency_orders"),
            Obs.ofOpt (st.heap 8 "high_frequency_submission_rate")]
  | .error e => .err e

def sessionPaths (settings : Val) :=
  obsPathsPG sessionObs env FUEL "Session.setup" [.ref 8, settings] sessionSt

/-- valuation: configured steps / switches (atoms 1–4), caps (5, 6), rate (num 7); previous values of the
optional attributes (81, 82, num 83) -/
def rhoSession (steps : Int) (place exec print : Bool) (maxN maxH : Int) (rate : K) (oldN oldH : Int) (oldR : K) : Rho K :=
  { i := fun k => if k = 1 then steps else if k = 5 then maxN else if k = 6 then maxH else if k = 81 then oldN
      else if k = 82 then oldH else 0
    n := fun k => if k = 7 then rate else oldR
    b := fun k => if k = 2 then place else if k = 3 then exec else if k = 4 then print else false }

def sNew : Val := settingsOf ["maxNormalOrders", "maxHighFrequencyOrders", "highFrequencySubmitRate"]
  [.int (.atom 5), .int (.atom 6), .num (.atom 7)]
def sLegacy : Val := settingsOf ["maxNormalOrders", "maxHifreqOrders", "hifreqSubmitRate"]
  [.int (.atom 5), .int (.atom 6), .num (.atom 7)]
def sMinimal : Val := settingsOf [] []
def sBothCaps : Val := settingsOf ["maxHighFrequencyOrders", "maxHifreqOrders"] [.int (.atom 6), .int (.atom 6)]
def sBothRates : Val := settingsOf ["highFrequencySubmitRate", "hifreqSubmitRate"] [.num (.atom 7), .num (.atom 7)]
def sNoSteps : Val := .dict (reqKeys.tail) (reqVals.tail)
def sStepsNotInt : Val := .dict reqKeys (.num (.atom 7) :: reqVals.tail)

set_option maxRecDepth 100000
theorem sessionP_new : sessionPaths sNew = evalnf% (sessionPaths sNew) := by kernel_rfl
theorem sessionP_legacy : sessionPaths sLegacy = evalnf% (sessionPaths sLegacy) := by kernel_rfl
theorem sessionP_minimal : sessionPaths sMinimal = evalnf% (sessionPaths sMinimal) := by kernel_rfl
theorem sessionP_bothCaps : sessionPaths sBothCaps = evalnf% (sessionPaths sBothCaps) := by kernel_rfl
theorem sessionP_bothRates : sessionPaths sBothRates = evalnf% (sessionPaths sBothRates) := by kernel_rfl
theorem sessionP_noSteps : sessionPaths sNoSteps = evalnf% (sessionPaths sNoSteps) := by kernel_rfl
theorem sessionP_stepsNotInt : sessionPaths sStepsNotInt = evalnf% (sessionPaths sStepsNotInt) := by kernel_rfl

macro "session_finish" : tactic =>
  `(tactic| (all_goals intro h
             all_goals simp [BTerm.eval, ITerm.eval, NTerm.eval, rhoSession, Obs.eval, Obs.evalList] at h ⊢))

/-- **every configured session parameter becomes the attribute, whatever its value** (a rate of 0.0, a cap
of 0, `False` switches included) -/
theorem session_src_new (steps : Int) (place exec print : Bool) (maxN maxH : Int) (rate : K) (oldN oldH : Int) (oldR : K) :
    resultG sessionObs (rhoSession steps place exec print maxN maxH rate oldN oldH oldR) env FUEL "Session.setup"
        [.ref 8, sNew] sessionSt
      = .tuple [.int steps, .bool place, .bool exec, .bool print, .int maxN, .int maxH, .num rate] := by
  apply resultG_eq_of_pathsP (by intro x; simp)
  show ∀ p ∈ sessionPaths sNew, _
  py_paths sessionP_new
  session_finish

/-- the deprecated keys `maxHifreqOrders` / `hifreqSubmitRate` set the same attributes -/
theorem session_src_legacy (steps : Int) (place exec print : Bool) (maxN maxH : Int) (rate : K) (oldN oldH : Int) (oldR : K) :
    resultG sessionObs (rhoSession steps place exec print maxN maxH rate oldN oldH oldR) env FUEL "Session.setup"
        [.ref 8, sLegacy] sessionSt
      = .tuple [.int steps, .bool place, .bool exec, .bool print, .int maxN, .int maxH, .num rate] := by
  apply resultG_eq_of_pathsP (by intro x; simp)
  show ∀ p ∈ sessionPaths sLegacy, _
  py_paths sessionP_legacy
  session_finish

/-- without the optional keys the optional attributes keep their values -/
theorem session_src_minimal (steps : Int) (place exec print : Bool) (maxN maxH : Int) (rate : K) (oldN oldH : Int) (oldR : K) :
    resultG sessionObs (rhoSession steps place exec print maxN maxH rate oldN oldH oldR) env FUEL "Session.setup"
        [.ref 8, sMinimal] sessionSt
      = .tuple [.int steps, .bool place, .bool exec, .bool print, .int oldN, .int oldH, .num oldR] := by
  apply resultG_eq_of_pathsP (by intro x; simp)
  show ∀ p ∈ sessionPaths sMinimal, _
  py_paths sessionP_minimal
  session_finish

/-- a deprecated key together with its replacement, a missing required key, a step count that is not an
integer: refused (`ValueError`) -/
theorem session_src_refused (steps : Int) (place exec print : Bool) (maxN maxH : Int) (rate : K) (oldN oldH : Int) (oldR : K) :
    ∀ s ∈ [sBothCaps, sBothRates, sNoSteps, sStepsNotInt],
      resultG sessionObs (rhoSession steps place exec print maxN maxH rate oldN oldH oldR) env FUEL "Session.setup"
        [.ref 8, s] sessionSt = .err (.raise "ValueError") := by
  intro s hs
  simp only [List.mem_cons, List.not_mem_nil, or_false] at hs
  rcases hs with rfl | rfl | rfl | rfl
  · apply resultG_eq_of_pathsP (by intro x; simp)
    show ∀ p ∈ sessionPaths sBothCaps, _
    py_paths sessionP_bothCaps
    session_finish
  · apply resultG_eq_of_pathsP (by intro x; simp)
    show ∀ p ∈ sessionPaths sBothRates, _
    py_paths sessionP_bothRates
    session_finish
  · apply resultG_eq_of_pathsP (by intro x; simp)
    show ∀ p ∈ sessionPaths sNoSteps, _
    py_paths sessionP_noSteps
    session_finish
  · apply resultG_eq_of_pathsP (by intro x; simp)
    show ∀ p ∈ sessionPaths sStepsNotInt, _
    py_paths sessionP_stepsNotInt
    session_finish

end Pams.Src
