/-
`Logger.write` / `bulk_write` / `write_and_direct_process` / `bulk_write_and_direct_process` / `_process` /
`process` and `Log.read_and_write` / `read_and_write_with_direct_process` as they stand in /repo (translated:
`PamsGen.Code`) are the steps of the logger model `Pams.Logger` — by symbolic execution.

Setting: the logger at address 8 holds a queue of pending records; records are objects at 30 … 39, one of each
of the ten record classes (`recClass`); the ten `process_*_log` methods are extern: a call of one of them
is a *delivery*.  Observed: the queue afterwards and the deliveries in order (method, record).
-/
import PamsLemmas.EvalNf
import PamsGen.Code
import PamsModel.Logger
import PamsLemmas.SrcOrder

namespace Pams.Src
open Pams Pams.Py Pams.Logger

variable {K : Type} [LinearOrder K] [NumOpsC K]

/-- the class of the record at address 30 + k, and the method that delivers it -/
def recClass : Nat → String × String
  | 0 => ("OrderLog", "process_order_log")
  | 1 => ("CancelLog", "process_cancel_log")
  | 2 => ("ExpirationLog", "process_expiration_log")
  | 3 => ("ExecutionLog", "process_execution_log")
  | 4 => ("SimulationBeginLog", "process_simulation_begin_log")
  | 5 => ("SimulationEndLog", "process_simulation_end_log")
  | 6 => ("SessionBeginLog", "process_session_begin_log")
  | 7 => ("SessionEndLog", "process_session_end_log")
  | 8 => ("MarketStepBeginLog", "process_market_step_begin_log")
  | _ => ("MarketStepEndLog", "process_market_step_end_log")

def logHeap (pending : List Nat) : Nat → String → Option Val :=
  fun addr =>
    if addr = 8 then (fun f => match f with
      | "__class__" => some (.str "Logger")
      | "pending_logs" => some (.list (pending.map Val.ref))
      | _ => none)
    else if 30 ≤ addr ∧ addr < 40 then (fun f => match f with
      | "__class__" => some (.str (recClass (addr - 30)).1)
      | _ => none)
    else fun _ => none

def logSt (pending : List Nat) : St := { heap := logHeap pending, calls := [] }

def logExt : Ext := fun st recv fn args =>
  match recv, args with
  | .ref 8, [.ref _] => if fn.startsWith "process_" ∧ fn.endsWith "_log" then some (.none, st) else none
  | _, _ => none

def logGlobals : String → Option Val := fun x =>
  if x.endsWith "Log" then some (.str x) else globals x

def logEnv : Env := { prog := PamsGen.Code.prog, globals := logGlobals, ext := logExt, mro := PamsGen.Code.mroOf }

/-- the queue afterwards and the deliveries -/
def logObs : Except Py.Err (Val × St) → Obs
  | .ok (_, st) =>
    .tuple [match st.heap 8 "pending_logs" with | some (.list l) => .tuple (l.map Obs.ofVal) | _ => .absent,
            .tuple (st.calls.reverse.map (fun c => .tuple [.str c.fn, Obs.ofVal c.recv, .tuple (c.args.map Obs.ofVal)]))]
  | .error e => .err e

def logPaths (fn : String) (args : List Val) (pending : List Nat) :=
  obsPathsPG logObs logEnv FUEL fn args (logSt pending)

/-- a model state as observed: the queue, and the records delivered *by this operation* -/
def lstateObs (s : LState Nat) (before : Nat) : CObs K :=
  .tuple [.tuple (s.pending.map CObs.ref),
          .tuple ((s.delivered.drop before).map (fun r =>
            .tuple [.str (recClass (r - 30)).2, .ref 8, .tuple [.ref r]]))]

set_option maxRecDepth 100000

/-- the queue used in the statements: an order record, an execution record, an end-of-step record -/
def q3 : List Nat := [30, 33, 39]
/-- one record of every class -/
def q10 : List Nat := [30, 31, 32, 33, 34, 35, 36, 37, 38, 39]

theorem lgP_write : logPaths "Logger.write" [.ref 8, .ref 38] q3 = evalnf% (logPaths "Logger.write" [.ref 8, .ref 38] q3) := by kernel_rfl
theorem lgP_rw : logPaths "Log.read_and_write" [.ref 38, .ref 8] q3 = evalnf% (logPaths "Log.read_and_write" [.ref 38, .ref 8] q3) := by kernel_rfl
theorem lgP_bulk : logPaths "Logger.bulk_write" [.ref 8, .list [.ref 31, .ref 36]] q3 = evalnf% (logPaths "Logger.bulk_write" [.ref 8, .list [.ref 31, .ref 36]] q3) := by kernel_rfl
theorem lgP_direct : logPaths "Logger.write_and_direct_process" [.ref 8, .ref 38] q3 = evalnf% (logPaths "Logger.write_and_direct_process" [.ref 8, .ref 38] q3) := by kernel_rfl
theorem lgP_rwd : logPaths "Log.read_and_write_with_direct_process" [.ref 39, .ref 8] q3 = evalnf% (logPaths "Log.read_and_write_with_direct_process" [.ref 39, .ref 8] q3) := by kernel_rfl
theorem lgP_bulkd : logPaths "Logger.bulk_write_and_direct_process" [.ref 8, .list [.ref 31, .ref 36]] q3 = evalnf% (logPaths "Logger.bulk_write_and_direct_process" [.ref 8, .list [.ref 31, .ref 36]] q3) := by kernel_rfl
theorem lgP_flush3 : logPaths "Logger._process" [.ref 8] q3 = evalnf% (logPaths "Logger._process" [.ref 8] q3) := by kernel_rfl
theorem lgP_flush10 : logPaths "Logger._process" [.ref 8] q10 = evalnf% (logPaths "Logger._process" [.ref 8] q10) := by kernel_rfl
theorem lgP_flush0 : logPaths "Logger._process" [.ref 8] [] = evalnf% (logPaths "Logger._process" [.ref 8] []) := by kernel_rfl

/-- `Logger.write` (and `Log.read_and_write`, which calls it) is the model's `write` -/
theorem logger_src_write (ρ : Rho K) (d : List Nat) :
    resultG logObs ρ logEnv FUEL "Logger.write" [.ref 8, .ref 38] (logSt q3)
      = lstateObs (step { pending := q3, delivered := d } (.write 38)) d.length ∧
    resultG logObs ρ logEnv FUEL "Log.read_and_write" [.ref 38, .ref 8] (logSt q3)
      = lstateObs (step { pending := q3, delivered := d } (.write 38)) d.length := by
  constructor
  · apply resultG_eq_of_pathsP (by intro x; simp)
    show ∀ p ∈ logPaths "Logger.write" [.ref 8, .ref 38] q3, _
    py_paths lgP_write
    intro _; simp [lstateObs, step, q3, Obs.eval, Obs.evalList]
  · apply resultG_eq_of_pathsP (by intro x; simp)
    show ∀ p ∈ logPaths "Log.read_and_write" [.ref 38, .ref 8] q3, _
    py_paths lgP_rw
    intro _; simp [lstateObs, step, q3, Obs.eval, Obs.evalList]

/-- `Logger.bulk_write` is the model's `bulkWrite` -/
theorem logger_src_bulk_write (ρ : Rho K) (d : List Nat) :
    resultG logObs ρ logEnv FUEL "Logger.bulk_write" [.ref 8, .list [.ref 31, .ref 36]] (logSt q3)
      = lstateObs (step { pending := q3, delivered := d } (.bulkWrite [31, 36])) d.length := by
  apply resultG_eq_of_pathsP (by intro x; simp)
  show ∀ p ∈ logPaths "Logger.bulk_write" [.ref 8, .list [.ref 31, .ref 36]] q3, _
  py_paths lgP_bulk
  intro _; simp [lstateObs, step, q3, Obs.eval, Obs.evalList]

/-- `Logger.write_and_direct_process` (and `Log.read_and_write_with_direct_process`) is the model's `direct`:
the record is delivered at once, by the method of its class; the queue is untouched -/
theorem logger_src_direct (ρ : Rho K) (d : List Nat) :
    resultG logObs ρ logEnv FUEL "Logger.write_and_direct_process" [.ref 8, .ref 38] (logSt q3)
      = lstateObs (step { pending := q3, delivered := d } (.direct 38)) d.length ∧
    resultG logObs ρ logEnv FUEL "Log.read_and_write_with_direct_process" [.ref 39, .ref 8] (logSt q3)
      = lstateObs (step { pending := q3, delivered := d } (.direct 39)) d.length ∧
    resultG logObs ρ logEnv FUEL "Logger.bulk_write_and_direct_process" [.ref 8, .list [.ref 31, .ref 36]] (logSt q3)
      = lstateObs (step (step { pending := q3, delivered := d } (.direct 31)) (.direct 36)) d.length := by
  refine ⟨?_, ?_, ?_⟩
  · apply resultG_eq_of_pathsP (by intro x; simp)
    show ∀ p ∈ logPaths "Logger.write_and_direct_process" [.ref 8, .ref 38] q3, _
    py_paths lgP_direct
    intro _; simp [lstateObs, step, q3, Obs.eval, Obs.evalList, recClass]
  · apply resultG_eq_of_pathsP (by intro x; simp)
    show ∀ p ∈ logPaths "Log.read_and_write_with_direct_process" [.ref 39, .ref 8] q3, _
    py_paths lgP_rwd
    intro _; simp [lstateObs, step, q3, Obs.eval, Obs.evalList, recClass]
  · apply resultG_eq_of_pathsP (by intro x; simp)
    show ∀ p ∈ logPaths "Logger.bulk_write_and_direct_process" [.ref 8, .list [.ref 31, .ref 36]] q3, _
    py_paths lgP_bulkd
    intro _; simp [lstateObs, step, q3, Obs.eval, Obs.evalList, recClass]

/-- `Logger._process` is the model's `flush`: every pending record is delivered once, in queue order, by
the method of its class (all ten classes), and the queue is empty afterwards -/
theorem logger_src_flush (ρ : Rho K) (d : List Nat) :
    resultG logObs ρ logEnv FUEL "Logger._process" [.ref 8] (logSt q3)
      = lstateObs (step { pending := q3, delivered := d } .flush) d.length ∧
    resultG logObs ρ logEnv FUEL "Logger._process" [.ref 8] (logSt q10)
      = lstateObs (step { pending := q10, delivered := d } .flush) d.length ∧
    resultG logObs ρ logEnv FUEL "Logger._process" [.ref 8] (logSt [])
      = lstateObs (step { pending := [], delivered := d } .flush) d.length := by
  refine ⟨?_, ?_, ?_⟩
  · apply resultG_eq_of_pathsP (by intro x; simp)
    show ∀ p ∈ logPaths "Logger._process" [.ref 8] q3, _
    py_paths lgP_flush3
    intro _; simp [lstateObs, step, q3, Obs.eval, Obs.evalList, recClass]
  · apply resultG_eq_of_pathsP (by intro x; simp)
    show ∀ p ∈ logPaths "Logger._process" [.ref 8] q10, _
    py_paths lgP_flush10
    intro _; simp [lstateObs, step, q10, Obs.eval, Obs.evalList, recClass]
  · apply resultG_eq_of_pathsP (by intro x; simp)
    show ∀ p ∈ logPaths "Logger._process" [.ref 8] [], _
    py_paths lgP_flush0
    intro _; simp [lstateObs, step, Obs.eval, Obs.evalList]

end Pams.Src
