/-
Access to the translator's output (`PamsGen/Fragments.lean`, regenerated from /repo on every run by
harness/extract.py).  The `source_*` theorems in the property files state, by `decide`, that the
decision fragments of the current sources carry exactly the comparison operators the hand-written
models transcribe; a flipped or weakened operator makes the theorem fail to compile.
-/
import PamsGen.Fragments

namespace Pams.Source

def opsOf (name : String) : List String :=
  match PamsGen.compareOps.find? (fun x => x.1 = name) with
  | some x => x.2
  | none => ["<not extracted>"]

def attrOf (key : String) : Option String :=
  (PamsGen.sessionKeys.find? (fun x => x.1 = key)).map (·.2)

def timeOf (fn : String) : Option String :=
  (PamsGen.triggerTimes.find? (fun x => x.1 = fn)).map (·.2)

end Pams.Source
