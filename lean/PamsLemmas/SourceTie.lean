/-
Access to the translator's output (`PamsGen/Fragments.lean`, regenerated from /repo on every run by
harness/extract.py).  The `source_*` theorems in the property files state, by `decide`, that the
decision fragments of the current sources carry exactly the comparison operators the hand-written
models transcribe; a flipped or weakened operator makes the theorem fail to compile.
-/
import PamsGen.Fragments
import PamsModel.Runner

namespace Pams.Source

def opsOf (name : String) : List String :=
  match PamsGen.compareOps.find? (fun x => x.1 = name) with
  | some x => x.2
  | none => ["<not extracted>"]

def attrOf (key : String) : Option String :=
  (PamsGen.sessionKeys.find? (fun x => x.1 = key)).map (·.2)

def timeOf (fn : String) : Option String :=
  (PamsGen.triggerTimes.find? (fun x => x.1 = fn)).map (·.2)

/-! ### the treatment of one request: the model's trace, in the vocabulary of the source -/
open Pams.Runner

/-- the calls and agent look-ups of `_handle_orders` that one event of the model's trace stands for
(buyer = agent 1, seller = agent 2 in the demonstration request below) -/
def callsOf : Ev → List String
  | .hookOrderBefore _ _ => ["_trigger_event_before_order"]
  | .addOrder _ _ => ["_add_order"]
  | .cbSubmitted _ _ => ["agent:agent_id", "submitted_order"]
  | .hookOrderAfter _ _ => ["_trigger_event_after_order"]
  | .hookCancelBefore _ _ => ["_trigger_event_before_cancel"]
  | .cancel _ _ => ["_cancel_order"]
  | .cbCanceled _ _ => ["agent:order.agent_id", "canceled_order"]
  | .hookCancelAfter _ _ => ["_trigger_event_after_cancel"]
  | .execution _ => ["_execution"]
  | .ledger _ => ["_update_agents_for_execution", "for["]
  | .cbExecuted a _ => [if a = 1 then "agent:buy_agent_id" else "agent:sell_agent_id", "executed_order"]
  | .hookExecAfter _ _ => ["_trigger_event_after_execution", "]"]
  | _ => ["<glue>"]

/-- an accepted request whose round (if one runs) produces one fill, buyer 1, seller 2 -/
def demoRequest (isCancel : Bool) : Request :=
  { owner := 7, market := 0, isCancel := isCancel, ref := 0, accepted := true,
    fills := some [{ buyer := 1, seller := 2, ref := 0, halts := false }] }

/-- what `Runner.processRequest` does for that request, as the source's calls in order -/
def modelPath (isCancel execution : Bool) : List String :=
  (processRequest 0 execution (demoRequest isCancel)).tr.flatMap callsOf

end Pams.Source
