/-
`Market._execution` of the current source on a book of two buy orders and one sell order = the
spelled-out round `round21` = the model's `Market.execution` (see SrcMarket21Defs / SrcMarket21Model).
-/
import PamsLemmas.SrcMarket21Paths1
import PamsLemmas.SrcMarket21Paths2
import PamsLemmas.SrcMarket21Paths3
import PamsLemmas.SrcMarket21Paths4
import PamsLemmas.SrcMarket21Model
import PamsLemmas.SrcAddTac

namespace Pams.Src
open Pams Pams.Py
variable {K : Type} [LinearOrder K] [NumOpsC K]
set_option maxRecDepth 100000
set_option maxHeartbeats 4000000

syntax "round21_paths" "[" Lean.Parser.Tactic.simpLemma,* "]" : tactic
macro_rules
  | `(tactic| round21_paths [$hs,*]) =>
    `(tactic| (all_goals intro h
               all_goals simp [BTerm.eval, ITerm.eval, NTerm.eval, rhoM21, Obs.eval, Obs.evalList, int_zero_eq_cast,
                 int_cast_eq_zero, int_cast_eq_cast, int_cast_lt_cast, int_cast_le_cast, int_zero_lt_cast, $hs,*] at h ⊢
               all_goals simp [round21, obs21, remainExecutable, pairPrice, noCross, cOpt, $hs,*]
               all_goals try grind (splits := 40)
               all_goals try (revert h; simp only [and_imp]; intros; subst_vars; simp_all [apply_ite]; done)
               all_goals try (revert h; simp only [and_imp]; intros; subst_vars; simp_all [apply_ite]; grind (splits := 40))
               all_goals try omega))

theorem execution21_src_time (m : Market K) (a c b : Order K) (pa pc pb mp dflt : K)
    (hb : m.buys = [a, c]) (hs : m.sells = [b]) (ha : a.isBuy = true) (hc : c.isBuy = true) (hbs : b.isBuy = false)
    (hpa : a.price = some pa) (hpc : c.price = some pc) (hpb : b.price = some pb) (ht : m.time = 0)
    (hl : m.cur.last = none) (hmid : m.cur.mid = none) (hmk : m.cur.market = some mp)
    (hva : a.vol ≠ 0) (hvc : c.vol ≠ 0) (hvb : b.vol ≠ 0) (hab : a.id ≠ b.id) (hcb : c.id ≠ b.id) (hac : a.id ≠ c.id)
    (hr : m.running = true) (h2 : (NumOpsC.ofInt 2 : K) ≠ NumOpsC.ofInt 0)
    (hprio : pa = pc ∧ a.placedAt < c.placedAt) :
    resultG execObs21 (rhoM21 m a c b dflt) env 300 "Market._execution" [.ref 5] (st21 true) = round21 m a c b := by
  rcases m with ⟨time, running, nextId, buys, sells, gone, ⟨cmk, clast, cmid, cfund, cev, cto, cnb, cns⟩, past⟩
  rcases a with ⟨ida, aga, isBuya, pricea, vola, pla, ttla⟩
  rcases c with ⟨idc, agc, isBuyc, pricec, volc, plc, ttlc⟩
  rcases b with ⟨idb, agb, isBuyb, priceb, volb, plb, ttlb⟩
  simp only at hb hs ha hc hbs hpa hpc hpb ht hl hmid hmk hva hvc hvb hab hcb hac hr hprio
  subst hb hs ha hc hbs hpa hpc hpb ht hl hmid hmk hr
  apply resultG_eq_of_pathsA (Prio.time.assume ++ assume21)
  · simp only [Prio.assume, assume21, List.cons_append, List.nil_append, List.forall_mem_cons, List.not_mem_nil,
      false_imp_iff, implies_true, and_true]
    repeat' constructor
    all_goals simp [BTerm.eval, ITerm.eval, NTerm.eval, rhoM21, hprio.1, hprio.2, h2, hab, hcb, hac, Ne.symm hcb]
    all_goals omega
  · show ∀ p ∈ exec21Paths .time true, _
    py_paths exec21_time_t
    round21_paths [hab, hcb, hac, Ne.symm hab, Ne.symm hcb, Ne.symm hac, h2, hva, hvc, hvb]

theorem execution21_src_price (m : Market K) (a c b : Order K) (pa pc pb mp dflt : K)
    (hb : m.buys = [a, c]) (hs : m.sells = [b]) (ha : a.isBuy = true) (hc : c.isBuy = true) (hbs : b.isBuy = false)
    (hpa : a.price = some pa) (hpc : c.price = some pc) (hpb : b.price = some pb) (ht : m.time = 0)
    (hl : m.cur.last = none) (hmid : m.cur.mid = none) (hmk : m.cur.market = some mp)
    (hva : a.vol ≠ 0) (hvc : c.vol ≠ 0) (hvb : b.vol ≠ 0) (hab : a.id ≠ b.id) (hcb : c.id ≠ b.id) (hac : a.id ≠ c.id)
    (hr : m.running = true) (h2 : (NumOpsC.ofInt 2 : K) ≠ NumOpsC.ofInt 0)
    (hprio : pc < pa) :
    resultG execObs21 (rhoM21 m a c b dflt) env 300 "Market._execution" [.ref 5] (st21 true) = round21 m a c b := by
  rcases m with ⟨time, running, nextId, buys, sells, gone, ⟨cmk, clast, cmid, cfund, cev, cto, cnb, cns⟩, past⟩
  rcases a with ⟨ida, aga, isBuya, pricea, vola, pla, ttla⟩
  rcases c with ⟨idc, agc, isBuyc, pricec, volc, plc, ttlc⟩
  rcases b with ⟨idb, agb, isBuyb, priceb, volb, plb, ttlb⟩
  simp only at hb hs ha hc hbs hpa hpc hpb ht hl hmid hmk hva hvc hvb hab hcb hac hr hprio
  subst hb hs ha hc hbs hpa hpc hpb ht hl hmid hmk hr
  apply resultG_eq_of_pathsA (Prio.price.assume ++ assume21)
  · simp only [Prio.assume, assume21, List.cons_append, List.nil_append, List.forall_mem_cons, List.not_mem_nil,
      false_imp_iff, implies_true, and_true]
    repeat' constructor
    all_goals simp [BTerm.eval, ITerm.eval, NTerm.eval, rhoM21, hprio, h2, hab, hcb, hac, Ne.symm hcb]
    all_goals omega
  · show ∀ p ∈ exec21Paths .price true, _
    py_paths exec21_price_t
    round21_paths [hab, hcb, hac, Ne.symm hab, Ne.symm hcb, Ne.symm hac, h2, hva, hvc, hvb]

theorem execution21_src_id (m : Market K) (a c b : Order K) (pa pc pb mp dflt : K)
    (hb : m.buys = [a, c]) (hs : m.sells = [b]) (ha : a.isBuy = true) (hc : c.isBuy = true) (hbs : b.isBuy = false)
    (hpa : a.price = some pa) (hpc : c.price = some pc) (hpb : b.price = some pb) (ht : m.time = 0)
    (hl : m.cur.last = none) (hmid : m.cur.mid = none) (hmk : m.cur.market = some mp)
    (hva : a.vol ≠ 0) (hvc : c.vol ≠ 0) (hvb : b.vol ≠ 0) (hab : a.id ≠ b.id) (hcb : c.id ≠ b.id) (hac : a.id ≠ c.id)
    (hr : m.running = true) (h2 : (NumOpsC.ofInt 2 : K) ≠ NumOpsC.ofInt 0)
    (hprio : pa = pc ∧ a.placedAt = c.placedAt ∧ a.id < c.id) :
    resultG execObs21 (rhoM21 m a c b dflt) env 300 "Market._execution" [.ref 5] (st21 true) = round21 m a c b := by
  rcases m with ⟨time, running, nextId, buys, sells, gone, ⟨cmk, clast, cmid, cfund, cev, cto, cnb, cns⟩, past⟩
  rcases a with ⟨ida, aga, isBuya, pricea, vola, pla, ttla⟩
  rcases c with ⟨idc, agc, isBuyc, pricec, volc, plc, ttlc⟩
  rcases b with ⟨idb, agb, isBuyb, priceb, volb, plb, ttlb⟩
  simp only at hb hs ha hc hbs hpa hpc hpb ht hl hmid hmk hva hvc hvb hab hcb hac hr hprio
  subst hb hs ha hc hbs hpa hpc hpb ht hl hmid hmk hr
  apply resultG_eq_of_pathsA (Prio.id.assume ++ assume21)
  · simp only [Prio.assume, assume21, List.cons_append, List.nil_append, List.forall_mem_cons, List.not_mem_nil,
      false_imp_iff, implies_true, and_true]
    repeat' constructor
    all_goals simp [BTerm.eval, ITerm.eval, NTerm.eval, rhoM21, hprio.1, hprio.2.1, hprio.2.2, h2, hab, hcb, hac, Ne.symm hcb]
    all_goals omega
  · show ∀ p ∈ exec21Paths .id true, _
    py_paths exec21_id_t
    round21_paths [hab, hcb, hac, Ne.symm hab, Ne.symm hcb, Ne.symm hac, h2, hva, hvc, hvb]

theorem execution21_src_price_mkt (m : Market K) (a c b : Order K) (pa pc pb mp dflt : K)
    (hb : m.buys = [a, c]) (hs : m.sells = [b]) (ha : a.isBuy = true) (hc : c.isBuy = true) (hbs : b.isBuy = false)
    (hpa : a.price = some pa) (hpc : c.price = some pc) (hpb : b.price = none) (ht : m.time = 0)
    (hl : m.cur.last = none) (hmid : m.cur.mid = none) (hmk : m.cur.market = some mp)
    (hva : a.vol ≠ 0) (hvc : c.vol ≠ 0) (hvb : b.vol ≠ 0) (hab : a.id ≠ b.id) (hcb : c.id ≠ b.id) (hac : a.id ≠ c.id)
    (hr : m.running = true) (h2 : (NumOpsC.ofInt 2 : K) ≠ NumOpsC.ofInt 0)
    (hprio : pc < pa) :
    resultG execObs21 (rhoM21 m a c b dflt) env 300 "Market._execution" [.ref 5] (st21 false) = round21 m a c b := by
  rcases m with ⟨time, running, nextId, buys, sells, gone, ⟨cmk, clast, cmid, cfund, cev, cto, cnb, cns⟩, past⟩
  rcases a with ⟨ida, aga, isBuya, pricea, vola, pla, ttla⟩
  rcases c with ⟨idc, agc, isBuyc, pricec, volc, plc, ttlc⟩
  rcases b with ⟨idb, agb, isBuyb, priceb, volb, plb, ttlb⟩
  simp only at hb hs ha hc hbs hpa hpc hpb ht hl hmid hmk hva hvc hvb hab hcb hac hr hprio
  subst hb hs ha hc hbs hpa hpc hpb ht hl hmid hmk hr
  apply resultG_eq_of_pathsA (Prio.price.assume ++ assume21)
  · simp only [Prio.assume, assume21, List.cons_append, List.nil_append, List.forall_mem_cons, List.not_mem_nil,
      false_imp_iff, implies_true, and_true]
    repeat' constructor
    all_goals simp [BTerm.eval, ITerm.eval, NTerm.eval, rhoM21, hprio, h2, hab, hcb, hac, Ne.symm hcb]
    all_goals omega
  · show ∀ p ∈ exec21Paths .price false, _
    py_paths exec21_price_f
    round21_paths [hab, hcb, hac, Ne.symm hab, Ne.symm hcb, Ne.symm hac, h2, hva, hvc, hvb]

/-- `a` outranks `c` on the buy side (both limit orders): better price, or equal price and earlier
acceptance, or equal price and time and lower id -/
def outranks (a c : Order K) (pa pc : K) : Prop :=
  pc < pa ∨ (pa = pc ∧ a.placedAt < c.placedAt) ∨ (pa = pc ∧ a.placedAt = c.placedAt ∧ a.id < c.id)

/-- **`Market._execution` of the current source on a sorted book of two limit buy orders `[a, c]` and
one limit sell order `[b]` is the model's `Market.execution`** — for all prices, volumes (positive),
ids (distinct), acceptance times, agents and step statistics, in a running market: in particular when
`b` is larger than `a` and still crosses `c`, the two fills the source returns carry one common price,
the one the *second* pair proposes. -/
theorem execution21_src (m : Market K) (a c b : Order K) (pa pc pb mp dflt : K)
    (hb : m.buys = [a, c]) (hs : m.sells = [b]) (ha : a.isBuy = true) (hc : c.isBuy = true) (hbs : b.isBuy = false)
    (hpa : a.price = some pa) (hpc : c.price = some pc) (hpb : b.price = some pb) (ht : m.time = 0)
    (hl : m.cur.last = none) (hmid : m.cur.mid = none) (hmk : m.cur.market = some mp)
    (hva : a.vol ≠ 0) (hvc : c.vol ≠ 0) (hvb : b.vol ≠ 0) (hab : a.id ≠ b.id) (hcb : c.id ≠ b.id) (hac : a.id ≠ c.id)
    (hr : m.running = true) (h2 : (NumOpsC.ofInt 2 : K) ≠ NumOpsC.ofInt 0) (hprio : outranks a c pa pc) :
    resultG execObs21 (rhoM21 m a c b dflt) env 300 "Market._execution" [.ref 5] (st21 true)
      = modelObs21 a c (Market.execution (srcOps K) m) := by
  rw [model_round21 m a c b pa pc hb hs hpa hpc hva hvc hvb hab hcb hac hr]
  rcases hprio with h | h | h
  · exact execution21_src_price m a c b pa pc pb mp dflt hb hs ha hc hbs hpa hpc hpb ht hl hmid hmk hva hvc hvb hab hcb hac hr h2 h
  · exact execution21_src_time m a c b pa pc pb mp dflt hb hs ha hc hbs hpa hpc hpb ht hl hmid hmk hva hvc hvb hab hcb hac hr h2 h
  · exact execution21_src_id m a c b pa pc pb mp dflt hb hs ha hc hbs hpa hpc hpb ht hl hmid hmk hva hvc hvb hab hcb hac hr h2 h

/-- the same with a **market sell order** sweeping two limit bids at different prices: both fills at
the price of the last matched bid -/
theorem execution21_src_market_sell (m : Market K) (a c b : Order K) (pa pc pb mp dflt : K)
    (hb : m.buys = [a, c]) (hs : m.sells = [b]) (ha : a.isBuy = true) (hc : c.isBuy = true) (hbs : b.isBuy = false)
    (hpa : a.price = some pa) (hpc : c.price = some pc) (hpb : b.price = none) (ht : m.time = 0)
    (hl : m.cur.last = none) (hmid : m.cur.mid = none) (hmk : m.cur.market = some mp)
    (hva : a.vol ≠ 0) (hvc : c.vol ≠ 0) (hvb : b.vol ≠ 0) (hab : a.id ≠ b.id) (hcb : c.id ≠ b.id) (hac : a.id ≠ c.id)
    (hr : m.running = true) (h2 : (NumOpsC.ofInt 2 : K) ≠ NumOpsC.ofInt 0) (hprio : pc < pa) :
    resultG execObs21 (rhoM21 m a c b dflt) env 300 "Market._execution" [.ref 5] (st21 false)
      = modelObs21 a c (Market.execution (srcOps K) m) := by
  rw [model_round21 m a c b pa pc hb hs hpa hpc hva hvc hvb hab hcb hac hr]
  exact execution21_src_price_mkt m a c b pa pc pb mp dflt hb hs ha hc hbs hpa hpc hpb ht hl hmid hmk hva hvc hvb hab hcb hac hr h2 hprio

end Pams.Src
