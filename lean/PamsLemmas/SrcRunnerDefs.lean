/-
`SequentialRunner._handle_orders` and `_collect_orders_from_normal_agents` as they stand in /repo
(translated: `PamsGen.Code`) against the scheduler model `Pams.Runner` — by symbolic execution.

The scheduler's world is extern: markets (`_add_order`, `_cancel_order`, `_execution`), agents
(`submit_orders`, the three callbacks), the simulator's hook dispatch (`_trigger_event_*`) and ledger
(`_update_agents_for_execution`, proved separately in SrcLedger) and the random generator (`sample`,
`random`) are answered by an oracle built from a *shape*: which requests exist (order / cancel, owner,
market), what `sample` answers, what each high-frequency agent submits, which fills a round after a
request produces and which of them make a hook switch the session's execution flag off (trading halt).
Symbolic (quantified in the theorems): the session's placement and execution flags, its
high-frequency rate and cap, and every `random()` draw.

Observed: the sequence of extern calls (name, receiver, first argument; the generator's own calls left
out) and the session's execution flag afterwards — or the exception.
-/
import PamsGen.Code
import PamsModel.Runner
import PamsLemmas.SrcOrder

namespace Pams.Src
open Pams Pams.Py Pams.Runner

variable {K : Type} [LinearOrder K] [NumOpsC K]

/-- one request object of the shape: its address, what it is, whose it is, for which market -/
structure ReqS where
  addr : Nat
  isCancel : Bool
  owner : Nat
  market : Nat
deriving Repr, DecidableEq

/-- one fill: address of its execution log, buyer, seller, whether a hook halts trading after it -/
structure FillS where
  addr : Nat
  buyer : Nat
  seller : Nat
  halts : Bool
deriving Repr, DecidableEq

structure RShape where
  reqs : List ReqS
  /-- `local_orders`, as addresses -/
  batches : List (List Nat)
  /-- what `sample(local_orders, …)` answers -/
  shuffled : List (List Nat)
  /-- the high-frequency agents (ids) as the simulator lists them, and as `sample` permutes them -/
  hft : List Nat
  perm : List Nat
  /-- the normal-frequency agents likewise -/
  normal : List Nat
  nperm : List Nat
  /-- what an agent submits when consulted -/
  answer : Nat → List Nat
  /-- what `_execution` returns right after the request at this address was placed -/
  fills : Nat → List FillS
  /-- the sessions' lengths (`iteration_steps`), for the shapes of `_run` -/
  steps : List Nat := [1]
  /-- a before-step hook for market `m`, dispatched when the clocks were advanced `ticks` times so far,
  switches the execution flag of the session in force on (a trading halt ends) -/
  resume : Nat → Nat → Bool := fun _ _ => false

def mktAddr (m : Nat) : Nat := 5 + m
def agentAddr (a : Nat) : Nat := 20 + a
/-- the log `_add_order` / `_cancel_order` returns for the request at `r` -/
def logAddr (r : Nat) : Nat := r + 100

def sessAddr (k : Nat) : Nat := if k = 0 then 4 else 9

def runnerObj : String → Option Val
  | "__class__" => some (.str "SequentialRunner")
  | "_prng" => some (.ref 2)
  | "simulator" => some (.ref 3)
  | "logger" => some (.ref 8)
  | _ => none

def rsimObj (sh : RShape) : String → Option Val
  | "__class__" => some (.str "Simulator")
  | "id2market" => some (.dict [.int (.lit 0), .int (.lit 1)] [.ref 5, .ref 6])
  | "id2agent" => some (.dict [.int (.lit 1), .int (.lit 2), .int (.lit 3), .int (.lit 4)] [.ref 21, .ref 22, .ref 23, .ref 24])
  | "markets" => some (.list [.ref 5, .ref 6])
  | "high_frequency_agents" => some (.list (sh.hft.map (fun a => .ref (agentAddr a))))
  | "normal_frequency_agents" => some (.list (sh.normal.map (fun a => .ref (agentAddr a))))
  | "sessions" => some (.list ((List.range sh.steps.length).map (fun k => .ref (sessAddr k))))
  | _ => none

/-- session `k` (0 or 1): placement = bool atom 1 + 10k, execution = bool atom 2 + 10k, rate = num atom 1
(session 0) / 100 (session 1), caps = int atoms 1 + 10k (high-frequency) and 2 + 10k (normal) -/
def rsessionObj (sh : RShape) (k : Nat) : String → Option Val
  | "__class__" => some (.str "Session")
  | "with_order_placement" => some (.bool (.atom (1 + 10 * k)))
  | "with_order_execution" => some (.bool (.atom (2 + 10 * k)))
  | "high_frequency_submission_rate" => some (.num (.atom (if k = 0 then 1 else 100)))
  | "max_high_frequency_orders" => some (.int (.atom (1 + 10 * k)))
  | "max_normal_orders" => some (.int (.atom (2 + 10 * k)))
  | "iteration_steps" => some (.int (.lit (sh.steps.getD k 0)))
  | _ => none

def ragentObj (a : Nat) : String → Option Val
  | "__class__" => some (.str "Agent")
  | "agent_id" => some (.int (.lit a))
  | _ => none

/-- an `Order` carries its owner; a `Cancel` carries the order it cancels (at `addr + 50`) -/
def reqObj (r : ReqS) : String → Option Val
  | "__class__" => some (.str (if r.isCancel then "Cancel" else "Order"))
  | "market_id" => some (.int (.lit r.market))
  | "agent_id" => some (.int (.lit r.owner))
  | "order" => if r.isCancel then some (.ref (r.addr + 50)) else none
  | _ => none

def cancelledObj (r : ReqS) : String → Option Val
  | "__class__" => some (.str "Order")
  | "agent_id" => some (.int (.lit r.owner))
  | "market_id" => some (.int (.lit r.market))
  | _ => none

def rfillObj (f : FillS) : String → Option Val
  | "__class__" => some (.str "ExecutionLog")
  | "buy_agent_id" => some (.int (.lit f.buyer))
  | "sell_agent_id" => some (.int (.lit f.seller))
  | _ => none

def allFills (sh : RShape) : List FillS := sh.reqs.flatMap (fun r => sh.fills r.addr)

def rHeap (sh : RShape) : Nat → String → Option Val :=
  fun addr =>
    if addr = 1 then runnerObj else if addr = 3 then rsimObj sh else if addr = 4 then rsessionObj sh 0
    else if addr = 9 then rsessionObj sh 1
    else if 21 ≤ addr ∧ addr ≤ 24 then ragentObj (addr - 20)
    else match sh.reqs.find? (fun r => r.addr = addr) with
      | some r => reqObj r
      | none =>
        match sh.reqs.find? (fun r => r.isCancel ∧ r.addr + 50 = addr) with
        | some r => cancelledObj r
        | none =>
          match (allFills sh).find? (fun f => f.addr = addr) with
          | some f => rfillObj f
          | none => fun _ => none

def rSt (sh : RShape) : St := { heap := rHeap sh, calls := [] }

def refs (l : List Nat) : Val := .list (l.map Val.ref)

/-- the request most recently handed to a market -/
def lastRequest : List Call → Option Nat
  | [] => none
  | c :: cs =>
    if c.fn = "_add_order" ∨ c.fn = "_cancel_order" then
      match c.args with
      | [.ref r] => some r
      | _ => none
    else lastRequest cs

def drawsSoFar (cs : List Call) : Nat := (cs.filter (fun c => c.fn = "random")).length

def ticksSoFar (cs : List Call) : Nat := (cs.filter (fun c => c.fn = "_update_times_on_markets")).length

/-- the session in force: what `_run` stored in `simulator.current_session`, else session 0 -/
def curSession (st : St) : Nat :=
  match st.heap 3 "current_session" with
  | some (.ref a) => a
  | _ => 4

/-- the oracle -/
def rExt (sh : RShape) : Ext := fun st recv fn args =>
  match recv, fn, args with
  | .ref 2, "sample", [.list l, _] =>
    if sh.normal = [] ∧ l.length = sh.batches.length ∧ (st.calls.all (fun c => c.fn ≠ "sample")) then
      some (.list (sh.shuffled.map refs), st)
    else
      match l with
      | [] => some (.list [], st)
      | .list _ :: _ => some (.list (sh.shuffled.map refs), st)
      | .ref a :: _ =>
        if sh.normal.any (fun x => agentAddr x = a) then some (.list (sh.nperm.map (fun a => .ref (agentAddr a))), st)
        else some (.list (sh.perm.map (fun a => .ref (agentAddr a))), st)
      | _ => none
  | .ref 2, "random", [] => some (.num (.atom (2 + drawsSoFar st.calls)), st)
  | .ref 3, "_trigger_event_before_order", [_] => some (.none, st)
  | .ref 3, "_trigger_event_after_order", [_] => some (.none, st)
  | .ref 3, "_trigger_event_before_cancel", [_] => some (.none, st)
  | .ref 3, "_trigger_event_after_cancel", [_] => some (.none, st)
  | .ref 3, "_update_agents_for_execution", [_] => some (.none, st)
  | .ref 3, "_trigger_event_after_execution", [.ref f] =>
    if (allFills sh).any (fun x => x.addr = f ∧ x.halts) then
      some (.none, st.set (curSession st) "with_order_execution" (.bool (.lit false)))
    else some (.none, st)
  | .ref 3, "_trigger_event_before_step_for_market", [.ref m] =>
    if sh.resume (ticksSoFar st.calls) (m - 5) then
      some (.none, st.set (curSession st) "with_order_execution" (.bool (.lit true)))
    else some (.none, st)
  | .ref 3, "_trigger_event_after_step_for_market", [_] => some (.none, st)
  | .ref 3, "_trigger_event_before_session", [_] => some (.none, st)
  | .ref 3, "_trigger_event_after_session", [_] => some (.none, st)
  | .ref 3, "_update_times_on_markets", [_] => some (.none, st)
  | .none, "SimulationBeginLog", [_] => some (.ref 800, st)
  | .none, "SimulationEndLog", [_] => some (.ref 801, st)
  | .none, "SessionBeginLog", [.ref s, _] => some (.ref (600 + s), st)
  | .none, "SessionEndLog", [.ref s, _] => some (.ref (700 + s), st)
  | .none, "MarketStepBeginLog", [_, .ref m, _] => some (.ref (400 + m), st)
  | .none, "MarketStepEndLog", [_, .ref m, _] => some (.ref (500 + m), st)
  | .ref 8, "_process", [] => some (.none, st)
  | .ref l, "read_and_write", [.ref 8] => if 400 ≤ l then some (.none, st) else none
  | .ref l, "read_and_write_with_direct_process", [.ref 8] => if 400 ≤ l then some (.none, st) else none
  | .ref m, "_add_order", [.ref r] => if m = 5 ∨ m = 6 then some (.ref (logAddr r), st) else none
  | .ref m, "_cancel_order", [.ref r] => if m = 5 ∨ m = 6 then some (.ref (logAddr r), st) else none
  | .ref m, "_execution", [] =>
    if m = 5 ∨ m = 6 then
      match lastRequest st.calls with
      | some r => some (.list ((sh.fills r).map (fun f => .ref f.addr)), st)
      | none => none
    else none
  | .ref a, "submit_orders", [_] =>
    if 21 ≤ a ∧ a ≤ 24 then some (refs (sh.answer (a - 20)), st) else none
  | .ref a, "submitted_order", [_] => if 21 ≤ a ∧ a ≤ 24 then some (.none, st) else none
  | .ref a, "canceled_order", [_] => if 21 ≤ a ∧ a ≤ 24 then some (.none, st) else none
  | .ref a, "executed_order", [_] => if 21 ≤ a ∧ a ≤ 24 then some (.none, st) else none
  | _, _, _ => none

/-- the translated program without the simulator's own methods — ledger, hook dispatch, clock advance are
extern here; their source theorems are SrcLedger and SrcSimulator -/
def rProg : List (String × FunDef) :=
  PamsGen.Code.prog.filter (fun e => !(e.1.startsWith "Simulator."))

def rEnv (sh : RShape) : Env := { prog := rProg, globals := globals, ext := rExt sh, mro := PamsGen.Code.mroOf }

def argObs : Val → Obs
  | .list l => .tuple (l.map Obs.ofVal)
  | v => Obs.ofVal v

def callObs (c : Call) : Obs :=
  .tuple [.str c.fn, Obs.ofVal c.recv, .tuple (c.args.map argObs)]

/-- the extern calls in program order (the random generator's own calls left out), then the
session's execution flag — or the exception -/
def runnerObs : Except Py.Err (Val × St) → Obs
  | .ok (_, st) =>
    .tuple [.tuple ((st.calls.reverse.filter (fun c => !(c.fn == "sample" || c.fn == "random"))).map callObs),
            Obs.ofOpt (st.heap 4 "with_order_execution")]
  | .error e => .err e

/-- `_collect_orders_from_normal_agents` also returns the batches -/
def collectObs : Except Py.Err (Val × St) → Obs
  | .ok (v, st) =>
    .tuple [.tuple ((st.calls.reverse.filter (fun c => !(c.fn == "sample" || c.fn == "random"))).map callObs),
            match v with | .list l => .tuple (l.map argObs) | _ => .other]
  | .error e => .err e

def handlePaths (sh : RShape) :=
  obsPathsPG runnerObs (rEnv sh) FUEL "SequentialRunner._handle_orders"
    [.ref 1, .ref 4, .list (sh.batches.map refs)] (rSt sh)

def collectPaths (sh : RShape) :=
  obsPathsPG collectObs (rEnv sh) FUEL "SequentialRunner._collect_orders_from_normal_agents"
    [.ref 1, .ref 4] (rSt sh)

/-! ### the model's side -/

def RShape.request (sh : RShape) (r : ReqS) : Request :=
  { owner := r.owner, market := r.market, isCancel := r.isCancel, ref := r.addr, accepted := true,
    fills := some ((sh.fills r.addr).map (fun f => { buyer := f.buyer, seller := f.seller, ref := f.addr, halts := f.halts })) }

def RShape.requests (sh : RShape) (l : List Nat) : List Request :=
  l.filterMap (fun a => (sh.reqs.find? (fun r => r.addr = a)).map sh.request)

/-- one call as observed -/
def cCall (fn : String) (recv : CObs K) (args : List (CObs K)) : CObs K := .tuple [.str fn, recv, .tuple args]

def mkts : CObs K := .tuple [.ref 5, .ref 6]

/-- the extern calls an event of the model's trace stands for; `ses` = address of the session in force.
(`setRunning` is a field write, not a call; the clocks of all markets are advanced by one call, which
stands where the model has the tick of the first market.) -/
def evCalls (ses : Nat) : Ev → List (CObs K)
  | .hookOrderBefore r _ => [cCall "_trigger_event_before_order" (.ref 3) [.ref r]]
  | .addOrder m r => [cCall "_add_order" (.ref (mktAddr m)) [.ref r]]
  | .cbSubmitted a r => [cCall "submitted_order" (.ref (agentAddr a)) [.ref (logAddr r)]]
  | .hookOrderAfter r _ => [cCall "_trigger_event_after_order" (.ref 3) [.ref (logAddr r)]]
  | .hookCancelBefore r _ => [cCall "_trigger_event_before_cancel" (.ref 3) [.ref r]]
  | .cancel m r => [cCall "_cancel_order" (.ref (mktAddr m)) [.ref r]]
  | .cbCanceled a r => [cCall "canceled_order" (.ref (agentAddr a)) [.ref (logAddr r)]]
  | .hookCancelAfter r _ => [cCall "_trigger_event_after_cancel" (.ref 3) [.ref (logAddr r)]]
  | .execution m => [cCall "_execution" (.ref (mktAddr m)) []]
  | .ledger fs => [cCall "_update_agents_for_execution" (.ref 3) [.tuple (fs.map CObs.ref)]]
  | .cbExecuted a f => [cCall "executed_order" (.ref (agentAddr a)) [.ref f]]
  | .hookExecAfter f _ => [cCall "_trigger_event_after_execution" (.ref 3) [.ref f]]
  | .consult a _ => [cCall "submit_orders" (.ref (agentAddr a)) [mkts]]
  | .simBegin => [cCall "SimulationBeginLog" .none [.ref 3], cCall "read_and_write" (.ref 800) [.ref 8]]
  | .simEnd => [cCall "SimulationEndLog" .none [.ref 3], cCall "read_and_write" (.ref 801) [.ref 8]]
  | .flush => [cCall "_process" (.ref 8) []]
  | .sessionBegin k => [cCall "SessionBeginLog" .none [.ref (sessAddr k), .ref 3],
                        cCall "read_and_write" (.ref (600 + sessAddr k)) [.ref 8]]
  | .sessionEnd k => [cCall "SessionEndLog" .none [.ref (sessAddr k), .ref 3],
                      cCall "read_and_write" (.ref (700 + sessAddr k)) [.ref 8]]
  | .hookSessionBefore k _ => [cCall "_trigger_event_before_session" (.ref 3) [.ref (sessAddr k)]]
  | .hookSessionAfter k _ => [cCall "_trigger_event_after_session" (.ref 3) [.ref (sessAddr k)]]
  | .hookStepBefore m _ => [cCall "_trigger_event_before_step_for_market" (.ref 3) [.ref (mktAddr m)]]
  | .stepBegin m _ => [cCall "MarketStepBeginLog" .none [.ref ses, .ref (mktAddr m), .ref 3],
                       cCall "read_and_write_with_direct_process" (.ref (400 + mktAddr m)) [.ref 8]]
  | .stepEnd m _ => [cCall "MarketStepEndLog" .none [.ref ses, .ref (mktAddr m), .ref 3],
                     cCall "read_and_write_with_direct_process" (.ref (500 + mktAddr m)) [.ref 8]]
  | .hookStepAfter m _ => [cCall "_trigger_event_after_step_for_market" (.ref 3) [.ref (mktAddr m)]]
  | .tick m => if m = 0 then [cCall "_update_times_on_markets" (.ref 3) [mkts]] else []
  | .setRunning _ _ => []
  | .abort => []

/-- a whole trace: the session in force changes at each before-session dispatch -/
def traceCalls : Nat → List Ev → List (CObs K)
  | _, [] => []
  | ses, e :: es =>
    let ses' := match e with | .hookSessionBefore k _ => sessAddr k | _ => ses
    evCalls ses' e ++ traceCalls ses' es

/-- what the model's outcome looks like from outside: the calls and the flag, or (an abort of
`_handle_orders` with every request accepted is the owner check) `ValueError` -/
def outObs (o : Out) : CObs K :=
  if o.ok then .tuple [.tuple (traceCalls 4 o.tr), .bool o.flag] else .err (.raise "ValueError")

/-- valuation: placement, flag, rate, caps, the draws -/
def rhoRun (placement flag : Bool) (rate : K) (draw : Nat → K) (capH capN : Int) : Rho K :=
  { i := fun k => if k = 1 then capH else if k = 2 then capN else 0
    n := fun k => if k = 1 then rate else draw (k - 2)
    b := fun k => if k = 1 then placement else if k = 2 then flag else false }

/-- the round tapes of the model: round `k` goes ahead unless `rate < draw k` -/
def RShape.rounds (sh : RShape) (rate : K) (draw : Nat → K) : Nat → Nat → List RoundTape
  | _, 0 => []
  | k, n + 1 => { go := !(decide (rate < draw k)), perm := sh.perm, answer := fun a => sh.requests (sh.answer a) }
      :: sh.rounds rate draw (k + 1) n

/-- the model's `handle` on the shape -/
def RShape.model (sh : RShape) (flag : Bool) (rate : K) (draw : Nat → K) (capH : Int) : Out :=
  handle 0 capH (sh.shuffled.map (fun b => (0, sh.requests b))) (sh.rounds rate draw 0 sh.shuffled.length) flag

/-! ### whole runs: `SequentialRunner._run` against `Runner.run` -/

/-- what is quantified per session -/
structure SessP (K : Type) where
  placement : Bool
  flag : Bool
  rate : K
  capH : Int
  capN : Int

/-- valuation for runs of up to two sessions -/
def rhoRun2 (s0 s1 : SessP K) (draw : Nat → K) : Rho K :=
  { i := fun k => if k = 1 then s0.capH else if k = 2 then s0.capN else if k = 11 then s1.capH
      else if k = 12 then s1.capN else 0
    n := fun k => if k = 1 then s0.rate else if k = 100 then s1.rate else draw (k - 2)
    b := fun k => if k = 1 then s0.placement else if k = 2 then s0.flag else if k = 11 then s1.placement
      else if k = 12 then s1.flag else false }

def SessP.cfg (s : SessP K) (steps : Nat) : SessionCfg :=
  { steps := steps, placement := s.placement, execution := s.flag, maxNormal := s.capN, maxHft := s.capH }

/-- the tapes of `n` steps, the first of which begins when the clocks were advanced `tick` times.  (The
shapes have at most one normal batch in the whole run: its round uses draw 0.) -/
def RShape.stepTapes (sh : RShape) (rate : K) (draw : Nat → K) : Nat → Nat → List StepTape
  | _, 0 => []
  | tick, n + 1 =>
    { resume := sh.resume tick, perm := sh.nperm, answer := fun a => sh.requests (sh.answer a),
      shuffle := List.range sh.shuffled.length, rounds := sh.rounds rate draw 0 sh.shuffled.length }
      :: sh.stepTapes rate draw (tick + 1) n

def twoMarkets : Markets := [(0, false), (1, false)]

/-- the model's run of the shape (one or two sessions) -/
def RShape.runModel (sh : RShape) (s0 s1 : SessP K) (draw : Nat → K) : List Ev × Bool :=
  match sh.steps with
  | [n0] => runSessions twoMarkets 0 0 [s0.cfg n0] [sh.stepTapes s0.rate draw 1 n0]
  | [n0, n1] => runSessions twoMarkets 0 0 [s0.cfg n0, s1.cfg n1]
      [sh.stepTapes s0.rate draw 1 n0, sh.stepTapes s1.rate draw (1 + n0) n1]
  | _ => ([], true)

/-- what `_run` shows: the extern calls, and the markets' running flags afterwards — or the exception -/
def runObs : Except Py.Err (Val × St) → Obs
  | .ok (_, st) =>
    .tuple [.tuple ((st.calls.reverse.filter (fun c => !(c.fn == "sample" || c.fn == "random"))).map callObs),
            Obs.ofOpt (st.heap 5 "_is_running"), Obs.ofOpt (st.heap 6 "_is_running")]
  | .error e => .err e

/-- the model's run as observed: `run`'s trace (begin and end of the simulation around the sessions),
the markets' flags = the execution switch of the last session as it stood when that session began -/
def runOut (r : List Ev × Bool) (lastFlag : Bool) : CObs K :=
  if r.2 then
    .tuple [.tuple (traceCalls 4 ([Ev.simBegin, Ev.flush] ++ ticks twoMarkets ++ r.1 ++ [Ev.simEnd, Ev.flush])),
            .bool lastFlag, .bool lastFlag]
  else .err (.raise "ValueError")

def runPaths (sh : RShape) :=
  obsPathsPG runObs (rEnv sh) 200 "SequentialRunner._run" [.ref 1] (rSt sh)

end Pams.Src
