/-
`SequentialRunner._handle_orders` and `_collect_orders_from_normal_agents` as they stand in /repo
(translated: `PamsGen.Code`) against the scheduler model `Pams.Runner` — by symbolic execution.

The scheduler's world is extern: markets (`_add_order`, `_cancel_order`, `_execution`), agents
(`submit_orders`, the three callbacks), the simulator's hook dispatch (`_trigger_event_*`) and ledger
(`_update_agents_for_execution`, proved separately in SrcLedger) and the random generator (`sample`,
`random`) are answered by an oracle built from a *shape*: which requests exist (order / cancel, owner,
market), what `sample` answers, what each high-frequency agent submits, which fills a round after a
request produces and which of them make a hook switch the session's execution flag off (trading halt).
Symbolic (quantified in the theorems): the session's placement and execution flags, its
high-frequency rate and cap, and every `random()` draw.

Observed: the sequence of extern calls (name, receiver, first argument; the generator's own calls left
out) and the session's execution flag afterwards — or the exception.
-/
import PamsGen.Code
import PamsModel.Runner
import PamsLemmas.SrcOrder

namespace Pams.Src
open Pams Pams.Py Pams.Runner

variable {K : Type} [LinearOrder K] [NumOpsC K]

/-- one request object of the shape: its address, what it is, whose it is, for which market -/
structure ReqS where
  addr : Nat
  isCancel : Bool
  owner : Nat
  market : Nat
deriving Repr, DecidableEq

/-- one fill: address of its execution log, buyer, seller, whether a hook halts trading after it -/
structure FillS where
  addr : Nat
  buyer : Nat
  seller : Nat
  halts : Bool
deriving Repr, DecidableEq

structure RShape where
  reqs : List ReqS
  /-- `local_orders`, as addresses -/
  batches : List (List Nat)
  /-- what `sample(local_orders, …)` answers -/
  shuffled : List (List Nat)
  /-- the high-frequency agents (ids) as the simulator lists them, and as `sample` permutes them -/
  hft : List Nat
  perm : List Nat
  /-- the normal-frequency agents likewise -/
  normal : List Nat
  nperm : List Nat
  /-- what an agent submits when consulted -/
  answer : Nat → List Nat
  /-- what `_execution` returns right after the request at this address was placed -/
  fills : Nat → List FillS

def mktAddr (m : Nat) : Nat := 5 + m
def agentAddr (a : Nat) : Nat := 20 + a
/-- the log `_add_order` / `_cancel_order` returns for the request at `r` -/
def logAddr (r : Nat) : Nat := r + 100

def runnerObj : String → Option Val
  | "__class__" => some (.str "SequentialRunner")
  | "_prng" => some (.ref 2)
  | "simulator" => some (.ref 3)
  | _ => none

def rsimObj (sh : RShape) : String → Option Val
  | "__class__" => some (.str "Simulator")
  | "id2market" => some (.dict [.int (.lit 0), .int (.lit 1)] [.ref 5, .ref 6])
  | "id2agent" => some (.dict [.int (.lit 1), .int (.lit 2), .int (.lit 3), .int (.lit 4)] [.ref 21, .ref 22, .ref 23, .ref 24])
  | "markets" => some (.list [.ref 5, .ref 6])
  | "high_frequency_agents" => some (.list (sh.hft.map (fun a => .ref (agentAddr a))))
  | "normal_frequency_agents" => some (.list (sh.normal.map (fun a => .ref (agentAddr a))))
  | _ => none

/-- the session: placement = bool atom 1, execution = bool atom 2, rate = num atom 1, caps = int atoms 1
(high-frequency) and 2 (normal) -/
def rsessionObj : String → Option Val
  | "__class__" => some (.str "Session")
  | "with_order_placement" => some (.bool (.atom 1))
  | "with_order_execution" => some (.bool (.atom 2))
  | "high_frequency_submission_rate" => some (.num (.atom 1))
  | "max_high_frequency_orders" => some (.int (.atom 1))
  | "max_normal_orders" => some (.int (.atom 2))
  | _ => none

def ragentObj (a : Nat) : String → Option Val
  | "__class__" => some (.str "Agent")
  | "agent_id" => some (.int (.lit a))
  | _ => none

/-- an `Order` carries its owner; a `Cancel` carries the order it cancels (at `addr + 50`) -/
def reqObj (r : ReqS) : String → Option Val
  | "__class__" => some (.str (if r.isCancel then "Cancel" else "Order"))
  | "market_id" => some (.int (.lit r.market))
  | "agent_id" => some (.int (.lit r.owner))
  | "order" => if r.isCancel then some (.ref (r.addr + 50)) else none
  | _ => none

def cancelledObj (r : ReqS) : String → Option Val
  | "__class__" => some (.str "Order")
  | "agent_id" => some (.int (.lit r.owner))
  | "market_id" => some (.int (.lit r.market))
  | _ => none

def rfillObj (f : FillS) : String → Option Val
  | "__class__" => some (.str "ExecutionLog")
  | "buy_agent_id" => some (.int (.lit f.buyer))
  | "sell_agent_id" => some (.int (.lit f.seller))
  | _ => none

def allFills (sh : RShape) : List FillS := sh.reqs.flatMap (fun r => sh.fills r.addr)

def rHeap (sh : RShape) : Nat → String → Option Val :=
  fun addr =>
    if addr = 1 then runnerObj else if addr = 3 then rsimObj sh else if addr = 4 then rsessionObj
    else if 21 ≤ addr ∧ addr ≤ 24 then ragentObj (addr - 20)
    else match sh.reqs.find? (fun r => r.addr = addr) with
      | some r => reqObj r
      | none =>
        match sh.reqs.find? (fun r => r.isCancel ∧ r.addr + 50 = addr) with
        | some r => cancelledObj r
        | none =>
          match (allFills sh).find? (fun f => f.addr = addr) with
          | some f => rfillObj f
          | none => fun _ => none

def rSt (sh : RShape) : St := { heap := rHeap sh, calls := [] }

def refs (l : List Nat) : Val := .list (l.map Val.ref)

/-- the request most recently handed to a market -/
def lastRequest : List Call → Option Nat
  | [] => none
  | c :: cs =>
    if c.fn = "_add_order" ∨ c.fn = "_cancel_order" then
      match c.args with
      | [.ref r] => some r
      | _ => none
    else lastRequest cs

def drawsSoFar (cs : List Call) : Nat := (cs.filter (fun c => c.fn = "random")).length

/-- the oracle -/
def rExt (sh : RShape) : Ext := fun st recv fn args =>
  match recv, fn, args with
  | .ref 2, "sample", [.list l, _] =>
    if l.length = sh.batches.length ∧ (st.calls.all (fun c => c.fn ≠ "sample")) ∧ sh.normal = [] then
      some (.list (sh.shuffled.map refs), st)
    else if sh.normal = [] then some (.list (sh.perm.map (fun a => .ref (agentAddr a))), st)
    else some (.list (sh.nperm.map (fun a => .ref (agentAddr a))), st)
  | .ref 2, "random", [] => some (.num (.atom (2 + drawsSoFar st.calls)), st)
  | .ref 3, "_trigger_event_before_order", [_] => some (.none, st)
  | .ref 3, "_trigger_event_after_order", [_] => some (.none, st)
  | .ref 3, "_trigger_event_before_cancel", [_] => some (.none, st)
  | .ref 3, "_trigger_event_after_cancel", [_] => some (.none, st)
  | .ref 3, "_update_agents_for_execution", [_] => some (.none, st)
  | .ref 3, "_trigger_event_after_execution", [.ref f] =>
    if (allFills sh).any (fun x => x.addr = f ∧ x.halts) then
      some (.none, st.set 4 "with_order_execution" (.bool (.lit false)))
    else some (.none, st)
  | .ref m, "_add_order", [.ref r] => if m = 5 ∨ m = 6 then some (.ref (logAddr r), st) else none
  | .ref m, "_cancel_order", [.ref r] => if m = 5 ∨ m = 6 then some (.ref (logAddr r), st) else none
  | .ref m, "_execution", [] =>
    if m = 5 ∨ m = 6 then
      match lastRequest st.calls with
      | some r => some (.list ((sh.fills r).map (fun f => .ref f.addr)), st)
      | none => none
    else none
  | .ref a, "submit_orders", [_] =>
    if 21 ≤ a ∧ a ≤ 24 then some (refs (sh.answer (a - 20)), st) else none
  | .ref a, "submitted_order", [_] => if 21 ≤ a ∧ a ≤ 24 then some (.none, st) else none
  | .ref a, "canceled_order", [_] => if 21 ≤ a ∧ a ≤ 24 then some (.none, st) else none
  | .ref a, "executed_order", [_] => if 21 ≤ a ∧ a ≤ 24 then some (.none, st) else none
  | _, _, _ => none

/-- the translated program without the simulator's ledger (an extern here; its source theorem is SrcLedger) -/
def rProg : List (String × FunDef) :=
  PamsGen.Code.prog.filter (fun e => !(e.1 == "Simulator._update_agents_for_execution"))

def rEnv (sh : RShape) : Env := { prog := rProg, globals := globals, ext := rExt sh }

def argObs : Val → Obs
  | .list l => .tuple (l.map Obs.ofVal)
  | v => Obs.ofVal v

def callObs (c : Call) : Obs :=
  .tuple [.str c.fn, Obs.ofVal c.recv, match c.args.head? with | some v => argObs v | Option.none => .absent]

/-- the extern calls in program order (the random generator's own calls left out), then the
session's execution flag — or the exception -/
def runnerObs : Except Py.Err (Val × St) → Obs
  | .ok (_, st) =>
    .tuple [.tuple ((st.calls.reverse.filter (fun c => !(c.fn == "sample" || c.fn == "random"))).map callObs),
            Obs.ofOpt (st.heap 4 "with_order_execution")]
  | .error e => .err e

/-- `_collect_orders_from_normal_agents` also returns the batches -/
def collectObs : Except Py.Err (Val × St) → Obs
  | .ok (v, st) =>
    .tuple [.tuple ((st.calls.reverse.filter (fun c => !(c.fn == "sample" || c.fn == "random"))).map callObs),
            match v with | .list l => .tuple (l.map argObs) | _ => .other]
  | .error e => .err e

def handlePaths (sh : RShape) :=
  obsPathsPG runnerObs (rEnv sh) FUEL "SequentialRunner._handle_orders"
    [.ref 1, .ref 4, .list (sh.batches.map refs)] (rSt sh)

def collectPaths (sh : RShape) :=
  obsPathsPG collectObs (rEnv sh) FUEL "SequentialRunner._collect_orders_from_normal_agents"
    [.ref 1, .ref 4] (rSt sh)

/-! ### the model's side -/

def RShape.request (sh : RShape) (r : ReqS) : Request :=
  { owner := r.owner, market := r.market, isCancel := r.isCancel, ref := r.addr, accepted := true,
    fills := some ((sh.fills r.addr).map (fun f => { buyer := f.buyer, seller := f.seller, ref := f.addr, halts := f.halts })) }

def RShape.requests (sh : RShape) (l : List Nat) : List Request :=
  l.filterMap (fun a => (sh.reqs.find? (fun r => r.addr = a)).map sh.request)

/-- one call as observed -/
def cCall (fn : String) (recv : Nat) (arg : CObs K) : CObs K := .tuple [.str fn, .ref recv, arg]

/-- the extern calls an event of the model's trace stands for -/
def evCalls : Ev → List (CObs K)
  | .hookOrderBefore r _ => [cCall "_trigger_event_before_order" 3 (.ref r)]
  | .addOrder m r => [cCall "_add_order" (mktAddr m) (.ref r)]
  | .cbSubmitted a r => [cCall "submitted_order" (agentAddr a) (.ref (logAddr r))]
  | .hookOrderAfter r _ => [cCall "_trigger_event_after_order" 3 (.ref (logAddr r))]
  | .hookCancelBefore r _ => [cCall "_trigger_event_before_cancel" 3 (.ref r)]
  | .cancel m r => [cCall "_cancel_order" (mktAddr m) (.ref r)]
  | .cbCanceled a r => [cCall "canceled_order" (agentAddr a) (.ref (logAddr r))]
  | .hookCancelAfter r _ => [cCall "_trigger_event_after_cancel" 3 (.ref (logAddr r))]
  | .execution m => [cCall "_execution" (mktAddr m) .absent]
  | .ledger fs => [cCall "_update_agents_for_execution" 3 (.tuple (fs.map CObs.ref))]
  | .cbExecuted a f => [cCall "executed_order" (agentAddr a) (.ref f)]
  | .hookExecAfter f _ => [cCall "_trigger_event_after_execution" 3 (.ref f)]
  | .consult a _ => [cCall "submit_orders" (agentAddr a) (.tuple [.ref 5, .ref 6])]
  | _ => []

/-- what the model's outcome looks like from outside: the calls and the flag, or (an abort of
`_handle_orders` with every request accepted is the owner check) `ValueError` -/
def outObs (o : Out) : CObs K :=
  if o.ok then .tuple [.tuple (o.tr.flatMap evCalls), .bool o.flag] else .err (.raise "ValueError")

/-- valuation: placement, flag, rate, caps, the draws -/
def rhoRun (placement flag : Bool) (rate : K) (draw : Nat → K) (capH capN : Int) : Rho K :=
  { i := fun k => if k = 1 then capH else if k = 2 then capN else 0
    n := fun k => if k = 1 then rate else draw (k - 2)
    b := fun k => if k = 1 then placement else if k = 2 then flag else false }

/-- the round tapes of the model: round `k` goes ahead unless `rate < draw k` -/
def RShape.rounds (sh : RShape) (rate : K) (draw : Nat → K) : Nat → Nat → List RoundTape
  | _, 0 => []
  | k, n + 1 => { go := !(decide (rate < draw k)), perm := sh.perm, answer := fun a => sh.requests (sh.answer a) }
      :: sh.rounds rate draw (k + 1) n

/-- the model's `handle` on the shape -/
def RShape.model (sh : RShape) (flag : Bool) (rate : K) (draw : Nat → K) (capH : Int) : Out :=
  handle 0 capH (sh.shuffled.map (fun b => (0, sh.requests b))) (sh.rounds rate draw 0 sh.shuffled.length) flag

end Pams.Src
