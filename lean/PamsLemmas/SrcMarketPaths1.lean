/-
Path enumerations of `Market._execution` on a one-buy / one-sell book (see SrcMarketDefs.lean):
`nf%` computes the pruned paths of the symbolic run of the *current* translated source, `rfl` makes
the kernel re-check them.  Shape: buy limit, sell limit.
-/
import PamsLemmas.EvalNf
import PamsLemmas.SrcMarketDefs

namespace Pams.Src
open Pams Pams.Py
set_option maxRecDepth 1000000

theorem exec11_ff_tt : exec11Paths false false true true = evalnf% (exec11Paths false false true true) := by kernel_rfl
theorem exec11_ft_tt : exec11Paths false true true true = evalnf% (exec11Paths false true true true) := by kernel_rfl
theorem exec11_tf_tt : exec11Paths true false true true = evalnf% (exec11Paths true false true true) := by kernel_rfl
theorem exec11_tt_tt : exec11Paths true true true true = evalnf% (exec11Paths true true true true) := by kernel_rfl

end Pams.Src
