/-
`Market._execution` as it stands in /repo (translated: `PamsGen.Code`, together with everything it
calls: `remain_executable_orders`, `OrderBook.get_best_order`, `_execute_orders`,
`OrderBook.change_order_volume`, `OrderBook._remove`, `Order.__eq__`, `_update_market_price`,
`ExecutionLog.__init__`) computes what the model `Market.execution` (PamsModel/Market.lean) says —
by symbolic execution of the source, for **all** values of every numeric field.

Shape of the state: a market in its first step (time 0, series of length 1) whose book holds one
buy order (address 1) and one sell order (address 2), either of which may be a limit or a market
order (not both market orders: that branch goes through `OrderBook.get_price_volume`, which is
outside the translated fragment).  All numbers — prices, volumes, ids, acceptance times, agents,
the statistics of the step, the running flag — are atoms: the theorems quantify over them.

The proof enumerates the pruned paths of the symbolic run (`Tree.pathsP`; `nf%` + `rfl`, so the
kernel re-checks the enumeration) and closes each path against the model by `simp` / `omega` /
`grind`.  A change of /repo that alters what `_execution` computes on such a book — the price rule,
the volume bookkeeping, the statistics, the post-condition — makes these theorems fail to compile.
-/
import PamsGen.Code
import PamsModel.Market
import PamsLemmas.SrcOrder

namespace Pams.Src
open Pams Pams.Py

variable {K : Type} [LinearOrder K] [NumOpsC K]

/-- an accepted order of market 0 at address `k`; side, kind and ttl-shape fixed, numbers atoms -/
def mOrder (k : Nat) (isBuy limit hasTtl : Bool) : String → Option Val
  | "__class__" => some (.str "Order")
  | "order_id" => some (.int (.atom (10 * k)))
  | "placed_at" => some (.int (.atom (10 * k + 1)))
  | "agent_id" => some (.int (.atom (10 * k + 2)))
  | "volume" => some (.int (.atom (10 * k + 3)))
  | "ttl" => some (if hasTtl then .int (.atom (10 * k + 4)) else .none)
  | "market_id" => some (.int (.lit 0))
  | "is_buy" => some (.bool (.lit isBuy))
  | "is_canceled" => some (.bool (.lit false))
  | "price" => some (if limit then .num (.atom k) else .none)
  | "kind" => some (.ref (if limit then 101 else 100))
  | _ => none

def bookObj (isBuy : Bool) (q : List Val) : String → Option Val
  | "__class__" => some (.str "OrderBook")
  | "priority_queue" => some (.list q)
  | "is_buy" => some (.bool (.lit isBuy))
  | "time" => some (.int (.lit 0))
  | "expire_time_list" => some (.dict [] [])
  | _ => none

def optNum (has : Bool) (k : Nat) : Val := if has then .num (.atom k) else .none

/-- market 0 in its first step -/
def marketObj (hasLast hasMid : Bool) : String → Option Val
  | "__class__" => some (.str "Market")
  | "market_id" => some (.int (.lit 0))
  | "_is_running" => some (.bool (.atom 50))
  | "time" => some (.int (.lit 0))
  | "tick_size" => some (.num (.atom 50))
  | "buy_order_book" => some (.ref 6)
  | "sell_order_book" => some (.ref 7)
  | "_next_order_id" => some (.int (.atom 51))
  | "_n_buy_orders" => some (.list [.int (.atom 52)])
  | "_n_sell_orders" => some (.list [.int (.atom 53)])
  | "_executed_volumes" => some (.list [.int (.atom 54)])
  | "_executed_total_prices" => some (.list [.num (.atom 51)])
  | "_last_executed_prices" => some (.list [optNum hasLast 52])
  | "_mid_prices" => some (.list [optNum hasMid 54])
  | "_market_prices" => some (.list [.num (.atom 53)])
  | "logger" => some .none
  | _ => none

def mHeap (hasLast hasMid : Bool) (bq sq : List Val) (ord : Nat → Option (String → Option Val)) :
    Nat → String → Option Val :=
  fun addr =>
    match ord addr with
    | some o => o
    | none =>
      if addr = 5 then marketObj hasLast hasMid else if addr = 6 then bookObj true bq
      else if addr = 7 then bookObj false sq
      else if addr = 100 then kindObj 0 else if addr = 101 then kindObj 1 else fun _ => none

def ords11 (lb ls : Bool) : Nat → Option (String → Option Val)
  | 1 => some (mOrder 1 true lb false)
  | 2 => some (mOrder 2 false ls false)
  | _ => none

def st11 (hasLast hasMid lb ls : Bool) : St :=
  { heap := mHeap hasLast hasMid [.ref 1] [.ref 2] (ords11 lb ls), calls := [] }

def listObs (st : St) (a : Nat) (f : String) : Obs :=
  match st.heap a f with
  | some (.list l) => .tuple (l.map Obs.ofVal)
  | _ => .other

/-- what is observed of a round: the fills returned (price, volume, order ids, agents, time), the
volumes the two order objects are left with, the two queues, and the five series of the step -/
def execObs : Except Py.Err (Val × St) → Obs
  | .ok (v, st) =>
    .tuple [ (match v with
              | .list l => .tuple (l.map (fun x => match x with
                  | .ref a => .tuple [Obs.ofOpt (st.heap a "price"), Obs.ofOpt (st.heap a "volume"),
                                       Obs.ofOpt (st.heap a "buy_order_id"), Obs.ofOpt (st.heap a "sell_order_id"),
                                       Obs.ofOpt (st.heap a "buy_agent_id"), Obs.ofOpt (st.heap a "sell_agent_id"),
                                       Obs.ofOpt (st.heap a "time")]
                  | _ => .other))
              | _ => .other),
             Obs.ofOpt (st.heap 1 "volume"), Obs.ofOpt (st.heap 2 "volume"),
             listObs st 6 "priority_queue", listObs st 7 "priority_queue",
             listObs st 5 "_last_executed_prices", listObs st 5 "_executed_volumes",
             listObs st 5 "_executed_total_prices", listObs st 5 "_mid_prices", listObs st 5 "_market_prices" ]
  | .error e => .err e

def XFUEL : Nat := 200

def exec11Paths (hasLast hasMid lb ls : Bool) :=
  obsPathsPG execObs env XFUEL "Market._execution" [.ref 5] (st11 hasLast hasMid lb ls)

/-! ### the model side, in the same vocabulary -/

/-- the model's arithmetic read off the uninterpreted operations: `(ask + bid) / 2.0`,
`acc + volume * price` -/
def srcOps (K : Type) [LinearOrder K] [NumOpsC K] : PriceOps K :=
  { mid := fun s b => (s + b) / PyNum.ofInt 2,
    addNotional := fun acc v p => acc + PyNum.ofInt v * p,
    zero := PyNum.ofInt 0,
    snap := fun _ p => p }

def cOpt : Option K → CObs K
  | some x => .num x
  | none => .none

def cFill (f : Fill K) : CObs K :=
  .tuple [.num f.price, .int f.vol, .int f.buyId, .int f.sellId, .int f.buyAgent, .int f.sellAgent, .int f.time]

def volOf (l : List (Order K)) : Int :=
  match l with
  | o :: _ => o.vol
  | [] => 0

/-- the observation `execObs` of the model's result (every `Err` of the model is an
`AssertionError` of the source) -/
def modelObs (a b : Order K) (r : Except Pams.Err (Market K × List (Fill K))) : CObs K :=
  match r with
  | .error _ => .err (.raise "AssertionError")
  | .ok (m, fills) =>
    .tuple [ .tuple (fills.map cFill), .int (volOf m.buys), .int (volOf m.sells),
             .tuple (m.buys.map (fun _ => CObs.ref 1)), .tuple (m.sells.map (fun _ => CObs.ref 2)),
             .tuple [cOpt m.cur.last], .tuple [.int m.cur.execVol], .tuple [.num m.cur.turnover],
             .tuple [cOpt m.cur.mid], .tuple [cOpt m.cur.market] ]
  where _unused := (a, b)

/-- the valuation reading the atoms off a model state with book `[a]` / `[b]` -/
def rhoM (m : Market K) (a b : Order K) (dflt : K) : Rho K :=
  { i := fun k =>
      if k = 10 then a.id else if k = 11 then a.placedAt else if k = 12 then a.agent
      else if k = 13 then a.vol
      else if k = 20 then b.id else if k = 21 then b.placedAt else if k = 22 then b.agent
      else if k = 23 then b.vol
      else if k = 51 then m.nextId else if k = 52 then m.cur.nBuy else if k = 53 then m.cur.nSell
      else if k = 54 then m.cur.execVol else 0
    n := fun k =>
      if k = 1 then a.price.getD dflt else if k = 2 then b.price.getD dflt
      else if k = 51 then m.cur.turnover else if k = 52 then m.cur.last.getD dflt
      else if k = 53 then m.cur.market.getD dflt else if k = 54 then m.cur.mid.getD dflt else dflt
    b := fun k => if k = 50 then m.running else false }

theorem hrefl_order (x : K) : PyNum.beq x x = true := by simp

/-- **one matching round on a book holding one buy order `a` and one sell order `b`, spelled out**
(what `execObs` shows of it): nothing happens unless the pair is executable; a zero volume, equal
ids, no price (two market orders) or a market that is not running raise; otherwise one fill of
`min a.vol b.vol` at the price of the pair (`pairPrice`: the limit side against a market order, the
earlier-accepted of two limit orders, the lower id at equal times), the smaller order leaves its
queue, the statistics of the step move by that fill, the mid-quote is gone (one side is empty) and
the market price is the trade price. -/
def round11 (m : Market K) (a b : Order K) : CObs K :=
  if remainExecutable [a] [b] = false then
    .tuple [.tuple [], .int a.vol, .int b.vol, .tuple [.ref 1], .tuple [.ref 2], .tuple [cOpt m.cur.last],
            .tuple [.int m.cur.execVol], .tuple [.num m.cur.turnover], .tuple [cOpt m.cur.mid],
            .tuple [cOpt m.cur.market]]
  else if a.vol = 0 ∨ b.vol = 0 ∨ a.id = b.id then .err (.raise "AssertionError")
  else
    match pairPrice a b with
    | none => .err (.raise "AssertionError")
    | some price =>
      if m.running = false then .err (.raise "AssertionError")
      else
        let v : Nat := if a.vol < b.vol then a.vol else b.vol
        .tuple [.tuple [.tuple [.num price, .int v, .int a.id, .int b.id, .int a.agent, .int b.agent, .int m.time]],
                .int ((a.vol : Int) - v), .int ((b.vol : Int) - v),
                .tuple (if b.vol < a.vol then [.ref 1] else []), .tuple (if a.vol < b.vol then [.ref 2] else []),
                .tuple [.num price], .tuple [.int ((m.cur.execVol : Int) + v)],
                .tuple [.num (m.cur.turnover + PyNum.ofInt v * price)],
                .tuple [.none], .tuple [.num price]]


end Pams.Src
