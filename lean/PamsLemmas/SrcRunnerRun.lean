/-
`SequentialRunner._run` as it stands in /repo — with `_iterate_market_updates`, `_update_markets`,
`_collect_orders_from_normal_agents` and `_handle_orders` below it, all translated from the current
source — is the scheduler model's `Runner.run`, shape by shape (see SrcRunnerDefs.lean).
-/
import PamsLemmas.SrcRunner

namespace Pams.Src
open Pams Pams.Py Pams.Runner
variable {K : Type} [LinearOrder K] [NumOpsC K]
set_option maxRecDepth 100000

/-! ### shapes of `_run` (with `_iterate_market_updates`, `_update_markets`, `_collect_orders_from_normal_agents`
and `_handle_orders` below it, all translated from the current source) -/

/-- two sessions of one and two steps over two markets, no agents: the frame of a run — logs, hook
dispatches, clock advances; a before-step hook of market 1 switches execution on in the second session -/
def rA : RShape :=
  { reqs := [], batches := [], shuffled := [], hft := [], perm := [], normal := [], nperm := [],
    answer := fun _ => [], fills := fun _ => [], steps := [1, 2], resume := fun tick m => tick = 2 ∧ m = 1 }

/-- one session of one step: the normal agent 1 submits an order whose fill halts trading, the
high-frequency agent 3 submits an order afterwards; market 1's before-step hook had switched execution on -/
def rB : RShape :=
  { reqs := [⟨10, false, 1, 0⟩, ⟨12, false, 3, 1⟩], batches := [[10]], shuffled := [[10]],
    hft := [3], perm := [3], normal := [1], nperm := [1],
    answer := fun a => if a = 1 then [10] else if a = 3 then [12] else [],
    fills := fun r => if r = 10 then [⟨30, 1, 2, true⟩] else [],
    steps := [1], resume := fun tick m => tick = 1 ∧ m = 1 }

/-- a session of no steps followed by a session of one step -/
def rC : RShape :=
  { reqs := [], batches := [], shuffled := [], hft := [], perm := [], normal := [], nperm := [],
    answer := fun _ => [], fills := fun _ => [], steps := [0, 1] }

/-- one session of three steps, no agents -/
def rD : RShape :=
  { reqs := [], batches := [], shuffled := [], hft := [], perm := [], normal := [], nperm := [],
    answer := fun _ => [], fills := fun _ => [], steps := [3], resume := fun tick m => tick = 3 ∧ m = 0 }

/-- the normal agent 2 submits an order in the name of agent 1: the run ends there -/
def rE : RShape :=
  { reqs := [⟨10, false, 1, 0⟩], batches := [[10]], shuffled := [[10]],
    hft := [], perm := [], normal := [2], nperm := [2],
    answer := fun a => if a = 2 then [10] else [],
    fills := fun _ => [], steps := [1] }

theorem rPathsA : runPaths rA = evalnf% (runPaths rA) := by kernel_rfl
theorem rPathsB : runPaths rB = evalnf% (runPaths rB) := by kernel_rfl
theorem rPathsC : runPaths rC = evalnf% (runPaths rC) := by kernel_rfl
theorem rPathsD : runPaths rD = evalnf% (runPaths rD) := by kernel_rfl
theorem rPathsE : runPaths rE = evalnf% (runPaths rE) := by kernel_rfl

/-- the statement for a shape: for every value of the sessions' switches, rates and caps and of every
draw, what `_run` does to its world is what the model's `run` says (`last` = the execution switch the
markets' running flags were last set from) -/
def RunSpec (K : Type) [LinearOrder K] [NumOpsC K] (sh : RShape) (last : SessP K → SessP K → Bool) : Prop :=
  ∀ (s0 s1 : SessP K) (draw : Nat → K),
    resultG runObs (rhoRun2 s0 s1 draw) (rEnv sh) 200 "SequentialRunner._run" [.ref 1] (rSt sh)
      = runOut (sh.runModel s0 s1 draw) (last s0 s1)

macro "run_finish " sh:ident : tactic =>
  `(tactic| (all_goals intro h
             all_goals simp [BTerm.eval, ITerm.eval, NTerm.eval, rhoRun2, Obs.eval, Obs.evalList] at h ⊢
             all_goals simp_all [lt_false_of_le, le_false_of_lt, runOut, RShape.runModel, RShape.stepTapes, RShape.rounds,
               RShape.requests, RShape.request, SessP.cfg, $sh:ident, twoMarkets, runSessions, runSession, runSteps, runStep,
               stepBefore, stepAfter, ticks, applyShuffle, collect, handle, processBatch, processRequest, Out.andThen,
               hftRound, fillEvents, flagAfterFills, evCalls, traceCalls, cCall, mkts, mktAddr, agentAddr, logAddr, sessAddr]))

theorem run_src_A : RunSpec K rA (fun _ s1 => s1.flag) := by
  intro s0 s1 draw
  rcases s0 with ⟨p0, f0, r0, h0, n0⟩
  rcases s1 with ⟨p1, f1, r1, h1, n1⟩
  apply resultG_eq_of_pathsP (by intro x; simp)
  show ∀ p ∈ runPaths rA, _
  py_paths rPathsA
  run_finish rA

theorem run_src_B : RunSpec K rB (fun s0 _ => s0.flag) := by
  intro s0 s1 draw
  rcases s0 with ⟨p0, f0, r0, h0, n0⟩
  rcases s1 with ⟨p1, f1, r1, h1, n1⟩
  apply resultG_eq_of_pathsP (by intro x; simp)
  show ∀ p ∈ runPaths rB, _
  py_paths rPathsB
  run_finish rB

theorem run_src_C : RunSpec K rC (fun _ s1 => s1.flag) := by
  intro s0 s1 draw
  rcases s0 with ⟨p0, f0, r0, h0, n0⟩
  rcases s1 with ⟨p1, f1, r1, h1, n1⟩
  apply resultG_eq_of_pathsP (by intro x; simp)
  show ∀ p ∈ runPaths rC, _
  py_paths rPathsC
  run_finish rC

theorem run_src_D : RunSpec K rD (fun s0 _ => s0.flag) := by
  intro s0 s1 draw
  rcases s0 with ⟨p0, f0, r0, h0, n0⟩
  rcases s1 with ⟨p1, f1, r1, h1, n1⟩
  apply resultG_eq_of_pathsP (by intro x; simp)
  show ∀ p ∈ runPaths rD, _
  py_paths rPathsD
  run_finish rD

theorem run_src_E : RunSpec K rE (fun s0 _ => s0.flag) := by
  intro s0 s1 draw
  rcases s0 with ⟨p0, f0, r0, h0, n0⟩
  rcases s1 with ⟨p1, f1, r1, h1, n1⟩
  apply resultG_eq_of_pathsP (by intro x; simp)
  show ∀ p ∈ runPaths rE, _
  py_paths rPathsE
  run_finish rE

end Pams.Src
