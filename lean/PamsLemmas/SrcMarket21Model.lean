/-
One matching round on a book of two buy orders `a`, `c` (in this priority) and one sell order `b`,
spelled out (`round21`), and the proof that the model's `Market.execution` is this.
-/
import PamsLemmas.SrcMarket21Defs
import PamsLemmas.SrcMarket

namespace Pams.Src
open Pams Pams.Py
variable {K : Type} [LinearOrder K] [NumOpsC K]

/-- what `execObs21` shows of a round with fills `fs` (volume, buyer, price are in `fs`), residual
volumes, queues, and the mid-quote `mid` afterwards -/
def obs21 (m : Market K) (price : K) (fs : List (Nat × Order K)) (b : Order K) (va vc vb : Int)
    (qb qs : List (CObs K)) (mid : Option K) : CObs K :=
  let tv : Nat := (fs.map (·.1)).sum
  .tuple [ .tuple (fs.map (fun f => CObs.tuple [.num price, .int f.1, .int f.2.id, .int b.id, .int f.2.agent,
                                                  .int b.agent, .int m.time])),
           .int va, .int vc, .int vb, .tuple qb, .tuple qs, .tuple [.num price],
           .tuple [.int ((m.cur.execVol : Int) + tv)],
           .tuple [.num (fs.foldl (fun acc f => acc + PyNum.ofInt f.1 * price) m.cur.turnover)],
           .tuple [cOpt mid], .tuple [.num price] ]

/-- **one matching round on the book `[a, c]` / `[b]`, spelled out** (positive volumes, distinct ids, a
running market, no market order among `a`, `c`): nothing happens unless `a` and `b` cross; `a` trades
with `b` for the smaller volume; if that exhausts `a` and `b` still crosses `c`, `c` trades with what is
left of `b` — and then **both fills carry the price of the second pair** (`pairPrice c b`); otherwise the
single fill carries `pairPrice a b`. -/
def round21 (m : Market K) (a c b : Order K) : CObs K :=
  if remainExecutable [a, c] [b] = false then
    .tuple [.tuple [], .int a.vol, .int c.vol, .int b.vol, .tuple [.ref 1, .ref 3], .tuple [.ref 2],
            .tuple [cOpt m.cur.last], .tuple [.int m.cur.execVol], .tuple [.num m.cur.turnover],
            .tuple [cOpt m.cur.mid], .tuple [cOpt m.cur.market]]
  else
    match pairPrice a b with
    | none => .err (.raise "AssertionError")
    | some p1 =>
      if b.vol < a.vol then
        obs21 m p1 [(b.vol, a)] b ((a.vol : Int) - b.vol) c.vol 0 [.ref 1, .ref 3] [] none
      else if b.vol = a.vol then
        obs21 m p1 [(a.vol, a)] b 0 c.vol 0 [.ref 3] [] none
      else
        let rest : Nat := b.vol - a.vol
        if noCross c b then
          obs21 m p1 [(a.vol, a)] b 0 c.vol rest [.ref 3] [.ref 2]
            (match c.price, b.price with | some pc, some pb => some ((pb + pc) / PyNum.ofInt 2) | _, _ => none)
        else
          match pairPrice c b with
          | none => .err (.raise "AssertionError")
          | some p2 =>
            let v2 : Nat := if c.vol < rest then c.vol else rest
            obs21 m p2 [(a.vol, a), (v2, c)] b 0 ((c.vol : Int) - v2) ((rest : Int) - v2)
              (if rest < c.vol then [.ref 3] else []) (if c.vol < rest then [.ref 2] else []) none

end Pams.Src

namespace Pams.Src
open Pams Pams.Py
variable {K : Type} [LinearOrder K] [NumOpsC K]

omit [NumOpsC K] in
theorem walk_cons_nocross (a b : Order K) (as bs : List (Order K)) (h : noCross a b = true) :
    walk (a :: as) (b :: bs) = ([], a :: as, b :: bs) := by
  rw [walk]; simp [h]

omit [NumOpsC K] in
theorem walk21 (a c b : Order K) (h : noCross a b = false) :
    walk [a, c] [b] =
      if a.vol < b.vol then
        let r := walk [c] [{ b with vol := b.vol - a.vol }]
        (⟨a.vol, a, b⟩ :: r.1, r.2.1, r.2.2)
      else if b.vol < a.vol then ([⟨b.vol, a, b⟩], [{ a with vol := a.vol - b.vol }, c], [])
      else ([⟨a.vol, a, b⟩], [c], []) := by
  rw [walk]
  simp only [h, walk_nil_l, walk_nil_r]
  simp

omit [NumOpsC K] in
theorem noCross_vol (c b : Order K) (v : Nat) : noCross c { b with vol := v } = noCross c b := by
  simp [noCross]

omit [NumOpsC K] in
theorem pairPrice_vol (c b : Order K) (v : Nat) : pairPrice c { b with vol := v } = pairPrice c b := by
  simp [pairPrice]

set_option maxHeartbeats 1600000 in
/-- the model's `Market.execution` on such a book is `round21` -/
theorem model_round21 (m : Market K) (a c b : Order K) (pa pc : K)
    (hb : m.buys = [a, c]) (hs : m.sells = [b]) (hpa : a.price = some pa) (hpc : c.price = some pc)
    (hva : a.vol ≠ 0) (hvc : c.vol ≠ 0) (hvb : b.vol ≠ 0)
    (hab : a.id ≠ b.id) (hcb : c.id ≠ b.id) (hac : a.id ≠ c.id) (hr : m.running = true) :
    modelObs21 a c (Market.execution (srcOps K) m) = round21 m a c b := by
  unfold round21 Market.execution
  rw [hb, hs]
  by_cases hex : remainExecutable [a, c] [b] = false
  · simp [hex, modelObs21, volOf, hb, hs, hac, Ne.symm hac]
  · have hnn : ¬ (a.price = none ∧ b.price = none) := by simp [hpa]
    have hex1 : ¬ remainExecutable [a] [b] = false := by
      cases hpb : b.price <;> simp_all [remainExecutable]
    have hc := cross_of_executable a b hnn hex1
    have hpp : ∃ p1, pairPrice a b = some p1 := by
      rcases b with ⟨idb, agb, isBuyb, priceb, volb, plb, ttlb⟩
      rcases a with ⟨ida, aga, isBuya, pricea, vola, pla, ttla⟩
      simp only at hpa; subst hpa
      cases priceb <;> simp [pairPrice] <;> grind
    obtain ⟨p1, hp1⟩ := hpp
    rw [walk21 a c b hc]
    simp only [hex, hp1]
    rcases Nat.lt_trichotomy b.vol a.vol with hlt | heq | hgt
    · -- b smaller: one fill, a keeps the rest
      have hn : ¬ a.vol < b.vol := by omega
      simp [hn, hlt, hva, hvc, hvb, hab, hcb, roundPrice, hp1, hr, modelObs21, remainExecutable, Market.settle,
        Market.refresh, midOf, marketRule, Book.bestPrice, mkFill, cFill, volOf, cOpt, srcOps, obs21, hb, hs, hac,
        Ne.symm hac, filledOf]
      omega
    · -- equal: one fill, both gone
      have hn : ¬ a.vol < b.vol := by omega
      have hn' : ¬ b.vol < a.vol := by omega
      simp [hn, hn', heq, hva, hvc, hvb, hab, hcb, roundPrice, hp1, hr, modelObs21, remainExecutable, Market.settle,
        Market.refresh, midOf, marketRule, Book.bestPrice, mkFill, cFill, volOf, cOpt, srcOps, obs21, hb, hs, hac,
        Ne.symm hac, filledOf]
    · -- a smaller: a is filled, then c against the rest of b
      have hn : ¬ b.vol < a.vol := by omega
      have hne : ¬ b.vol = a.vol := by omega
      simp only [hgt, if_true, hn, hne, if_false]
      by_cases hcc : noCross c b = true
      · -- the rest of b does not cross c: one fill
        have hw : walk [c] [{ b with vol := b.vol - a.vol }] = ([], [c], [{ b with vol := b.vol - a.vol }]) :=
          walk_cons_nocross c _ [] [] (by rw [noCross_vol]; exact hcc)
        rw [hw]
        have hrem : remainExecutable [c] [{ b with vol := b.vol - a.vol }] = false := by
          rcases b with ⟨idb, agb, isBuyb, priceb, volb, plb, ttlb⟩
          rcases c with ⟨idc, agc, isBuyc, pricec, volc, plc, ttlc⟩
          simp only at hpc; subst hpc
          cases priceb <;> simp_all [remainExecutable, noCross]
        simp [hcc, hva, hvc, hvb, hab, hcb, roundPrice, hp1, hr, modelObs21, hrem, Market.settle,
          Market.refresh, midOf, marketRule, Book.bestPrice, mkFill, cFill, volOf, cOpt, srcOps, obs21, hb, hs, hac,
          Ne.symm hac, filledOf, hpc]
        try (constructor <;> first | omega | (cases hpb : b.price <;> simp))
      · -- two fills at the price of the second pair
        have hcc' : noCross c b = false := by simpa using hcc
        have hpp2 : ∃ p2, pairPrice c b = some p2 := by
          rcases b with ⟨idb, agb, isBuyb, priceb, volb, plb, ttlb⟩
          rcases c with ⟨idc, agc, isBuyc, pricec, volc, plc, ttlc⟩
          simp only at hpc; subst hpc
          cases priceb <;> simp [pairPrice] <;> grind
        obtain ⟨p2, hp2⟩ := hpp2
        rw [walk11 c _ (by rw [noCross_vol]; exact hcc')]
        simp only [hcc', hp2, Bool.false_eq_true, if_false]
        have hrest : b.vol - a.vol ≠ 0 := by omega
        rcases Nat.lt_trichotomy c.vol (b.vol - a.vol) with h1 | h1 | h1
        · have h2 : ¬ (b.vol - a.vol) < c.vol := by omega
          simp [h1, h2, hrest, hva, hvc, hvb, hab, hcb, roundPrice, pairPrice_vol, hp2, hr, modelObs21, remainExecutable,
            Market.settle, Market.refresh, midOf, marketRule, Book.bestPrice, mkFill, cFill, volOf, cOpt, srcOps, obs21,
            hb, hs, hac, Ne.symm hac, filledOf]
          try omega
        · have h2 : ¬ (b.vol - a.vol) < c.vol := by omega
          have h3 : ¬ c.vol < (b.vol - a.vol) := by omega
          simp [h1, h2, h3, hrest, hva, hvc, hvb, hab, hcb, roundPrice, pairPrice_vol, hp2, hr, modelObs21, remainExecutable,
            Market.settle, Market.refresh, midOf, marketRule, Book.bestPrice, mkFill, cFill, volOf, cOpt, srcOps, obs21,
            hb, hs, hac, Ne.symm hac, filledOf]
          try omega
        · have h2 : ¬ c.vol < (b.vol - a.vol) := by omega
          simp [h1, h2, hrest, hva, hvc, hvb, hab, hcb, roundPrice, pairPrice_vol, hp2, hr, modelObs21, remainExecutable,
            Market.settle, Market.refresh, midOf, marketRule, Book.bestPrice, mkFill, cFill, volOf, cOpt, srcOps, obs21,
            hb, hs, hac, Ne.symm hac, filledOf]
          try omega

end Pams.Src
