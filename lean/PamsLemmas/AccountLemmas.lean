import PamsLemmas.MarketLemmas

set_option linter.unusedSectionVars false

namespace Pams
variable {P : Type} [LinearOrder P]

/-- volume accepted under order id `id` according to a trace -/
def accepted (id : Nat) (tr : List (Rec P)) : Nat :=
  (tr.map (fun r => match r with
    | .order l => if l.id = id then l.vol else 0
    | _ => 0)).sum

/-- volume filled for order id `id` according to a trace -/
def filledIn (id : Nat) (tr : List (Rec P)) : Nat :=
  (tr.map (fun r => match r with
    | .fill f => (if f.buyId = id then f.vol else 0) + (if f.sellId = id then f.vol else 0)
    | _ => 0)).sum

def goneVol (id : Nat) (g : List (Order P × Gone)) : Nat :=
  (g.map (fun x => if x.1.id = id then x.1.vol else 0)).sum

/-- the volume order `id` currently has: resting volume, or the volume it left the book with -/
def curVol (m : Market P) (id : Nat) : Nat :=
  volOf id m.buys + volOf id m.sells + goneVol id m.gone

theorem accepted_append (id : Nat) (a b : List (Rec P)) :
    accepted id (a ++ b) = accepted id a + accepted id b := by simp [accepted]
theorem filledIn_append (id : Nat) (a b : List (Rec P)) :
    filledIn id (a ++ b) = filledIn id a + filledIn id b := by simp [filledIn]
theorem goneVol_append (id : Nat) (a b : List (Order P × Gone)) :
    goneVol id (a ++ b) = goneVol id a + goneVol id b := by simp [goneVol]

theorem volOf_insert (id : Nat) (o : Order P) (l : List (Order P)) :
    volOf id (Book.insert o l) = volOf id l + (if o.id = id then o.vol else 0) := by
  induction l with
  | nil => simp [Book.insert, volOf]
  | cons x xs ih =>
    unfold Book.insert
    split
    · simp [volOf]; omega
    · simp only [volOf, List.map_cons, List.sum_cons] at ih ⊢
      rw [ih]; omega

theorem sum_map_zero {α : Type} (l : List α) (f : α → Nat) (h : ∀ x ∈ l, f x = 0) :
    (l.map f).sum = 0 := by
  induction l with
  | nil => rfl
  | cons x xs ih =>
    simp only [List.map_cons, List.sum_cons, h x (by simp), Nat.zero_add]
    exact ih (fun y hy => h y (by simp [hy]))

theorem volOf_filter_partition (id : Nat) (p : Order P → Bool) (l : List (Order P)) :
    volOf id l = volOf id (l.filter p) + volOf id (l.filter (fun x => !p x)) := by
  induction l with
  | nil => simp [volOf]
  | cons x xs ih =>
    unfold volOf at ih ⊢
    by_cases hp : p x = true
    · simp [hp]; omega
    · have hp' : p x = false := by simpa using hp
      simp [hp']; omega

theorem volOf_zero_of_not_mem (id : Nat) (l : List (Order P)) (h : ∀ x ∈ l, x.id ≠ id) :
    volOf id l = 0 := by
  induction l with
  | nil => rfl
  | cons x xs ih =>
    simp only [volOf, List.map_cons, List.sum_cons]
    have hx := h x (by simp)
    simp only [hx, ↓reduceIte, Nat.zero_add]
    exact ih (fun y hy => h y (by simp [hy]))

/-- removing the (unique) order with id `id'` from a side takes exactly its volume away -/
theorem volOf_remove (id id' : Nat) (l : List (Order P)) (o : Order P)
    (hnd : (l.map (·.id)).Nodup) (hf : findOrder id' l = some o) :
    volOf id l = volOf id (Book.remove id' l) + (if o.id = id then o.vol else 0) := by
  induction l with
  | nil => simp [findOrder] at hf
  | cons x xs ih =>
    simp only [List.map_cons, List.nodup_cons] at hnd
    by_cases hx : x.id = id'
    · have hxo : x = o := by
        unfold findOrder at hf
        simpa [List.find?, hx] using hf
      subst hxo
      have hrest : ∀ y ∈ xs, y.id ≠ id' := by
        intro y hy e
        exact hnd.1 (List.mem_map.mpr ⟨y, hy, by rw [e, hx]⟩)
      have hfil : Book.remove id' xs = xs := by
        unfold Book.remove
        apply List.filter_eq_self.mpr
        intro y hy
        simpa using hrest y hy
      have : Book.remove id' (x :: xs) = xs := by
        unfold Book.remove at hfil ⊢
        rw [List.filter_cons_of_neg (by simpa using hx)]
        exact hfil
      rw [this]
      simp only [volOf, List.map_cons, List.sum_cons]
      omega
    · have hf' : findOrder id' xs = some o := by
        unfold findOrder at hf ⊢
        simpa [List.find?, hx] using hf
      have h2 := ih hnd.2 hf'
      have : Book.remove id' (x :: xs) = x :: Book.remove id' xs := by
        unfold Book.remove
        rw [List.filter_cons_of_pos (by simpa using hx)]
      rw [this]
      simp only [volOf, List.map_cons, List.sum_cons] at h2 ⊢
      omega

theorem goneVol_filledOf (id : Nat) (orig resid : List (Order P)) :
    goneVol id (filledOf orig resid) = 0 := by
  unfold goneVol filledOf
  simp only [List.map_map]
  apply sum_map_zero
  intro x _
  simp

theorem goneVol_map_expired (id : Nat) (l : List (Order P)) (g : Gone) :
    goneVol id (l.map (·, g)) = volOf id l := by
  simp [goneVol, volOf, Function.comp_def]

theorem filledIn_fills (id : Nat) (time : Nat) (price : P) (ps : List (Pair P)) :
    filledIn id ((ps.map (mkFill time price)).map Rec.fill) = buyFilled id ps + sellFilled id ps := by
  induction ps with
  | nil => simp [filledIn, buyFilled, sellFilled]
  | cons p ps ih =>
    simp only [filledIn, buyFilled, sellFilled, List.map_cons, List.sum_cons, mkFill] at ih ⊢
    rw [ih]; omega

theorem accepted_fills (id : Nat) (fs : List (Fill P)) : accepted id (fs.map Rec.fill) = 0 := by
  simp only [accepted, List.map_map]
  apply sum_map_zero
  intro x _
  simp

theorem refresh_curVol (ops : PriceOps P) (m : Market P) (id : Nat) :
    curVol (m.refresh ops) id = curVol m id := rfl

/-- C04 core: one operation keeps the books balanced for every order id:
accepted + volume before = filled + volume after. -/
theorem step_accounting (ops : PriceOps P) (m : Market P) (hinv : Inv m) (o : Op P) (id : Nat) :
    accepted id (m.step ops o).2 + curVol m id =
      filledIn id (m.step ops o).2 + curVol (m.step ops o).1 id := by
  cases o with
  | setRunning b => simp [Market.step, accepted, filledIn, curVol]
  | setFund f => simp [Market.step, accepted, filledIn, curVol]
  | add r =>
    simp only [Market.step, Market.addOrder]
    cases hb : r.isBuy
    · simp [accepted, filledIn, curVol, Market.refresh, volOf_insert]; omega
    · simp [accepted, filledIn, curVol, Market.refresh, volOf_insert]; omega
  | tick f =>
    simp only [Market.step, Market.tick]
    have hb := volOf_filter_partition id (fun x => !x.expired (m.time + 1)) m.buys
    have hs := volOf_filter_partition id (fun x => !x.expired (m.time + 1)) m.sells
    simp only [Bool.not_not] at hb hs
    have ea : accepted id (List.map Rec.expiry
        (List.map (mkExpiry (m.time + 1)) (Book.expiredAt (m.time + 1) m.buys) ++
          List.map (mkExpiry (m.time + 1)) (Book.expiredAt (m.time + 1) m.sells))) = 0 := by
      simp only [accepted, List.map_map]
      apply sum_map_zero
      intro x _
      simp
    have ef : filledIn id (List.map Rec.expiry
        (List.map (mkExpiry (m.time + 1)) (Book.expiredAt (m.time + 1) m.buys) ++
          List.map (mkExpiry (m.time + 1)) (Book.expiredAt (m.time + 1) m.sells))) = 0 := by
      simp only [filledIn, List.map_map]
      apply sum_map_zero
      intro x _
      simp
    rw [ea, ef]
    simp only [curVol, goneVol_append, goneVol_map_expired, Book.keepAt, Book.expiredAt]
    omega
  | jump k f =>
    simp only [Market.step, Market.setTime]
    have hb := volOf_filter_partition id (fun x => !x.expired (m.time + (k + 1))) m.buys
    have hs := volOf_filter_partition id (fun x => !x.expired (m.time + (k + 1))) m.sells
    simp only [Bool.not_not] at hb hs
    have ea : accepted id (List.map Rec.expiry
        (List.map (mkExpiry (m.time + (k + 1))) (Book.expiredAt (m.time + (k + 1)) m.buys) ++
          List.map (mkExpiry (m.time + (k + 1))) (Book.expiredAt (m.time + (k + 1)) m.sells))) = 0 := by
      simp only [accepted, List.map_map]
      apply sum_map_zero
      intro x _
      simp
    have ef : filledIn id (List.map Rec.expiry
        (List.map (mkExpiry (m.time + (k + 1))) (Book.expiredAt (m.time + (k + 1)) m.buys) ++
          List.map (mkExpiry (m.time + (k + 1))) (Book.expiredAt (m.time + (k + 1)) m.sells))) = 0 := by
      simp only [filledIn, List.map_map]
      apply sum_map_zero
      intro x _
      simp
    rw [ea, ef]
    simp only [curVol, goneVol_append, goneVol_map_expired, Book.keepAt, Book.expiredAt]
    omega
  | cancel id' =>
    simp only [Market.step]
    rcases hc : m.cancel ops id' with e | ⟨m', l⟩
    · simp [accepted, filledIn]
    · simp only [accepted, filledIn, List.map_cons, List.map_nil, List.sum_cons, List.sum_nil]
      unfold Market.cancel at hc
      split at hc
      · rename_i o hfo
        simp at hc; obtain ⟨rfl, _⟩ := hc
        have := volOf_remove id id' m.buys o hinv.buys.nodup hfo
        simp only [Market.refresh, curVol, goneVol, List.map_cons, List.sum_cons] at this ⊢
        omega
      · split at hc
        · rename_i o hfo
          simp at hc; obtain ⟨rfl, _⟩ := hc
          have := volOf_remove id id' m.sells o hinv.sells.nodup hfo
          simp only [Market.refresh, curVol, goneVol, List.map_cons, List.sum_cons] at this ⊢
          omega
        · split at hc
          · simp at hc; obtain ⟨rfl, _⟩ := hc
            simp [curVol, Market.refresh]
          · simp at hc
  | exec =>
    simp only [Market.step]
    rcases hc : m.execution ops with e | ⟨m', fs⟩
    · simp [accepted, filledIn]
    · simp only []
      rcases execution_cases ops m m' fs hc with ⟨_, rfl, rfl⟩ | ⟨_, _, price, _, hs⟩
      · simp [accepted, filledIn]
      · have hm' : m' = (m.settle ops (walk m.buys m.sells) price).1 := congrArg Prod.fst hs
        have hfs : fs = (walk m.buys m.sells).1.map (mkFill m.time price) := by
          have := congrArg Prod.snd hs; simpa [Market.settle] using this
        rw [accepted_fills, hfs, filledIn_fills, hm']
        have hw := walk_conserve m.buys m.sells id
        simp only [Market.settle, Market.refresh, curVol, goneVol_append, goneVol_filledOf]
        omega

/-- C04: along every history the books balance for every order id. -/
theorem run_accounting (ops : PriceOps P) (m : Market P) (hinv : Inv m) (os : List (Op P))
    (hv : ∀ o ∈ os, o.valid) (id : Nat) :
    accepted id (m.runOps ops os).2 + curVol m id =
      filledIn id (m.runOps ops os).2 + curVol (m.runOps ops os).1 id := by
  induction os generalizing m with
  | nil => simp [Market.runOps, accepted, filledIn]
  | cons o os ih =>
    have h1 := step_accounting ops m hinv o id
    have h2 := ih (m.step ops o).1 (inv_step ops m o hinv (hv o (by simp)))
      (fun o' ho' => hv o' (by simp [ho']))
    have e1 : (m.runOps ops (o :: os)).1 = ((m.step ops o).1.runOps ops os).1 := rfl
    have e2 : (m.runOps ops (o :: os)).2 = (m.step ops o).2 ++ ((m.step ops o).1.runOps ops os).2 := rfl
    rw [e1, e2, accepted_append, filledIn_append]
    omega

end Pams

namespace Pams
variable {P : Type} [LinearOrder P]

/-- orders that left the book never come back: their ids are below the counter and not in the
book -/
def GoneInv (m : Market P) : Prop :=
  ∀ g ∈ m.gone, g.1.id < m.nextId ∧ (∀ o ∈ m.buys, o.id ≠ g.1.id) ∧ (∀ o ∈ m.sells, o.id ≠ g.1.id)

theorem eq_of_id_eq (l : List (Order P)) (hnd : (l.map (·.id)).Nodup) (a b : Order P)
    (ha : a ∈ l) (hb : b ∈ l) (h : a.id = b.id) : a = b := by
  induction l with
  | nil => simp at ha
  | cons x xs ih =>
    simp only [List.map_cons, List.nodup_cons] at hnd
    rcases List.mem_cons.mp ha with hax | hax <;> rcases List.mem_cons.mp hb with hbx | hbx
    · rw [hax, hbx]
    · exfalso
      apply hnd.1
      rw [← hax, h]
      exact List.mem_map.mpr ⟨b, hbx, rfl⟩
    · exfalso
      apply hnd.1
      rw [← hbx, ← h]
      exact List.mem_map.mpr ⟨a, hax, rfl⟩
    · exact ih hnd.2 hax hbx

theorem findOrder_some (id : Nat) (l : List (Order P)) (o : Order P)
    (h : findOrder id l = some o) : o ∈ l ∧ o.id = id := by
  unfold findOrder at h
  exact ⟨List.mem_of_find?_eq_some h, by simpa using List.find?_some h⟩

theorem goneInv_refresh (ops : PriceOps P) (m : Market P) (h : GoneInv m) :
    GoneInv (m.refresh ops) := h

theorem goneInv_step (ops : PriceOps P) (m : Market P) (hinv : Inv m) (hg : GoneInv m) (o : Op P) :
    GoneInv (m.step ops o).1 := by
  cases o with
  | setRunning b => exact hg
  | setFund f => exact hg
  | add r =>
    simp only [Market.step, Market.addOrder]
    cases hb : r.isBuy
    · intro g hgm
      have := hg g hgm
      refine ⟨Nat.lt_succ_of_lt this.1, this.2.1, ?_⟩
      intro o ho
      simp only [Market.refresh] at ho
      rcases (mem_insert _ o m.sells).mp ho with rfl | ho
      · simp; omega
      · exact this.2.2 o ho
    · intro g hgm
      have := hg g hgm
      refine ⟨Nat.lt_succ_of_lt this.1, ?_, this.2.2⟩
      intro o ho
      simp only [Market.refresh] at ho
      rcases (mem_insert _ o m.buys).mp ho with rfl | ho
      · simp; omega
      · exact this.2.1 o ho
  | tick f =>
    simp only [Market.step, Market.tick]
    intro g hgm
    simp only [List.mem_append, List.mem_map] at hgm
    rcases hgm with (⟨e, he, rfl⟩ | ⟨e, he, rfl⟩) | hgm
    · have hes := List.mem_filter.mp he
      refine ⟨hinv.sells.idlt e hes.1, ?_, ?_⟩
      · intro o ho
        exact hinv.disj o (List.mem_filter.mp ho).1 e hes.1
      · intro o ho heq
        have hos := List.mem_filter.mp ho
        have := eq_of_id_eq m.sells hinv.sells.nodup o e hos.1 hes.1 heq
        subst this
        have h1 := hes.2; have h2 := hos.2
        simp [h1] at h2
    · have hes := List.mem_filter.mp he
      refine ⟨hinv.buys.idlt e hes.1, ?_, ?_⟩
      · intro o ho heq
        have hos := List.mem_filter.mp ho
        have := eq_of_id_eq m.buys hinv.buys.nodup o e hos.1 hes.1 heq
        subst this
        have h1 := hes.2; have h2 := hos.2
        simp [h1] at h2
      · intro o ho heq
        exact hinv.disj e hes.1 o (List.mem_filter.mp ho).1 heq.symm
    · have := hg g hgm
      exact ⟨this.1, fun o ho => this.2.1 o (List.mem_filter.mp ho).1,
        fun o ho => this.2.2 o (List.mem_filter.mp ho).1⟩
  | jump k f =>
    simp only [Market.step, Market.setTime]
    intro g hgm
    simp only [List.mem_append, List.mem_map] at hgm
    rcases hgm with (⟨e, he, rfl⟩ | ⟨e, he, rfl⟩) | hgm
    · have hes := List.mem_filter.mp he
      refine ⟨hinv.sells.idlt e hes.1, ?_, ?_⟩
      · intro o ho
        exact hinv.disj o (List.mem_filter.mp ho).1 e hes.1
      · intro o ho heq
        have hos := List.mem_filter.mp ho
        have := eq_of_id_eq m.sells hinv.sells.nodup o e hos.1 hes.1 heq
        subst this
        have h1 := hes.2; have h2 := hos.2
        simp [h1] at h2
    · have hes := List.mem_filter.mp he
      refine ⟨hinv.buys.idlt e hes.1, ?_, ?_⟩
      · intro o ho heq
        have hos := List.mem_filter.mp ho
        have := eq_of_id_eq m.buys hinv.buys.nodup o e hos.1 hes.1 heq
        subst this
        have h1 := hes.2; have h2 := hos.2
        simp [h1] at h2
      · intro o ho heq
        exact hinv.disj e hes.1 o (List.mem_filter.mp ho).1 heq.symm
    · have := hg g hgm
      exact ⟨this.1, fun o ho => this.2.1 o (List.mem_filter.mp ho).1,
        fun o ho => this.2.2 o (List.mem_filter.mp ho).1⟩
  | cancel id' =>
    simp only [Market.step]
    rcases hc : m.cancel ops id' with e | ⟨m', l⟩
    · exact hg
    · simp only []
      unfold Market.cancel at hc
      split at hc
      · rename_i o hfo
        simp at hc; obtain ⟨rfl, _⟩ := hc
        have ho := findOrder_some id' m.buys o hfo
        intro g hgm
        simp only [Market.refresh, List.mem_cons] at hgm
        rcases hgm with rfl | hgm
        · refine ⟨hinv.buys.idlt o ho.1, ?_, ?_⟩
          · intro y hy
            have := (List.mem_filter.mp hy).2
            simp only [Market.refresh] at *
            rw [ho.2]; simpa using this
          · intro y hy heq
            exact hinv.disj o ho.1 y hy heq.symm
        · have := hg g hgm
          exact ⟨this.1, fun y hy => this.2.1 y (List.mem_filter.mp hy).1, this.2.2⟩
      · split at hc
        · rename_i o hfo
          simp at hc; obtain ⟨rfl, _⟩ := hc
          have ho := findOrder_some id' m.sells o hfo
          intro g hgm
          simp only [Market.refresh, List.mem_cons] at hgm
          rcases hgm with rfl | hgm
          · refine ⟨hinv.sells.idlt o ho.1, ?_, ?_⟩
            · intro y hy heq
              exact hinv.disj y hy o ho.1 heq
            · intro y hy
              have := (List.mem_filter.mp hy).2
              simp only [Market.refresh] at *
              rw [ho.2]; simpa using this
          · have := hg g hgm
            exact ⟨this.1, this.2.1, fun y hy => this.2.2 y (List.mem_filter.mp hy).1⟩
        · split at hc
          · simp at hc; obtain ⟨rfl, _⟩ := hc
            exact hg
          · simp at hc
  | exec =>
    simp only [Market.step]
    rcases hc : m.execution ops with e | ⟨m', fs⟩
    · exact hg
    · simp only []
      rcases execution_cases ops m m' fs hc with ⟨_, rfl, _⟩ | ⟨_, _, price, _, hs⟩
      · exact hg
      · have hm' : m' = (m.settle ops (walk m.buys m.sells) price).1 := congrArg Prod.fst hs
        rw [hm']
        simp only [Market.settle, Market.refresh]
        intro g hgm
        simp only [List.mem_append] at hgm
        have hrb := (walk_resid_mem m.buys m.sells).1
        have hrs := (walk_resid_mem m.buys m.sells).2
        rcases hgm with (hgm | hgm) | hgm
        · unfold filledOf at hgm
          obtain ⟨o, ho, rfl⟩ := List.mem_map.mp hgm
          have hof := List.mem_filter.mp ho
          refine ⟨hinv.buys.idlt o hof.1, ?_, ?_⟩
          · intro y hy heq
            have := hof.2
            simp only [Bool.not_eq_true', List.any_eq_false, decide_eq_true_eq] at this
            exact this y hy heq
          · intro y hy heq
            obtain ⟨s0, hs0, hso⟩ := hrs y hy
            exact hinv.disj o hof.1 s0 hs0 (by rw [← hso.1]; exact heq.symm)
        · unfold filledOf at hgm
          obtain ⟨o, ho, rfl⟩ := List.mem_map.mp hgm
          have hof := List.mem_filter.mp ho
          refine ⟨hinv.sells.idlt o hof.1, ?_, ?_⟩
          · intro y hy heq
            obtain ⟨b0, hb0, hbo⟩ := hrb y hy
            exact hinv.disj b0 hb0 o hof.1 (by rw [← hbo.1]; exact heq)
          · intro y hy heq
            have := hof.2
            simp only [Bool.not_eq_true', List.any_eq_false, decide_eq_true_eq] at this
            exact this y hy heq
        · have := hg g hgm
          refine ⟨this.1, ?_, ?_⟩
          · intro y hy
            obtain ⟨b0, hb0, hbo⟩ := hrb y hy
            rw [hbo.1]; exact this.2.1 b0 hb0
          · intro y hy
            obtain ⟨s0, hs0, hso⟩ := hrs y hy
            rw [hso.1]; exact this.2.2 s0 hs0

theorem goneInv_init (ops : PriceOps P) (mp : P) (f : Option P) :
    GoneInv (Market.init ops mp f) := by
  intro g hg; simp [Market.init] at hg

theorem goneInv_runOps (ops : PriceOps P) (m : Market P) (os : List (Op P)) (h : Inv m)
    (hg : GoneInv m) (hv : ∀ o ∈ os, o.valid) : GoneInv (m.runOps ops os).1 := by
  induction os generalizing m with
  | nil => exact hg
  | cons o os ih =>
    have e1 : (m.runOps ops (o :: os)).1 = ((m.step ops o).1.runOps ops os).1 := rfl
    rw [e1]
    exact ih _ (inv_step ops m o h (hv o (by simp))) (goneInv_step ops m h hg o)
      (fun o' ho' => hv o' (by simp [ho']))

end Pams
