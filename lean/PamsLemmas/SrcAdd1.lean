/-
`Market._add_order` of the current source = the model's `Market.addOrder`, shape by shape (see
SrcAddDefs.lean for the setting): part 1.
-/
import PamsLemmas.SrcAddPaths1
import PamsLemmas.SrcAddTac

namespace Pams.Src
open Pams Pams.Py
variable {K : Type} [LinearOrder K] [NumOpsC K]
set_option maxRecDepth 100000
set_option maxHeartbeats 1000000

theorem add_src_ttff (m : Market K) (r : Req K) (o : Order K) (tick dflt pr lp mp : K) (tt : Nat)
    (hb : m.buys = []) (hs : m.sells = []) (hside : r.isBuy = true) (hprice : r.price = some pr) (httl : r.ttl = none)
    (ht : m.time = 0) (hl : m.cur.last = none) (hm : m.cur.mid = none) (hmk : m.cur.market = some mp)
    (htick : tick ≠ NumOpsC.ofInt 0) :
    resultG addObs (rhoAdd m r o tick dflt) env XFUEL "Market._add_order" [.ref 5, .ref 1] (stAdd true true false false 0 .none false false)
      = modelAddObs m r (m.addOrder (srcOpsT K tick) r) := by
  rcases m with ⟨time, running, nextId, buys, sells, gone, ⟨cmk, clast, cmid, cfund, cev, cto, cnb, cns⟩, past⟩
  rcases r with ⟨agr, isBuyr, pricer, volr, ttlr⟩
  simp only at hb hs hside hprice httl ht hl hm hmk
  subst hb hs hside hprice httl ht hl hm hmk
  apply resultG_eq_of_pathsP hrefl_order
  show ∀ p ∈ addPaths true true false false 0 .none false false, _
  py_paths addP_ttff
  add_paths_finish

theorem add_src_ttft (m : Market K) (r : Req K) (o : Order K) (tick dflt pr lp mp : K) (tt : Nat)
    (hb : m.buys = []) (hs : m.sells = []) (hside : r.isBuy = true) (hprice : r.price = some pr) (httl : r.ttl = none)
    (ht : m.time = 0) (hl : m.cur.last = some lp) (hm : m.cur.mid = none) (hmk : m.cur.market = some mp)
    (htick : tick ≠ NumOpsC.ofInt 0) :
    resultG addObs (rhoAdd m r o tick dflt) env XFUEL "Market._add_order" [.ref 5, .ref 1] (stAdd true true false false 0 .none true false)
      = modelAddObs m r (m.addOrder (srcOpsT K tick) r) := by
  rcases m with ⟨time, running, nextId, buys, sells, gone, ⟨cmk, clast, cmid, cfund, cev, cto, cnb, cns⟩, past⟩
  rcases r with ⟨agr, isBuyr, pricer, volr, ttlr⟩
  simp only at hb hs hside hprice httl ht hl hm hmk
  subst hb hs hside hprice httl ht hl hm hmk
  apply resultG_eq_of_pathsP hrefl_order
  show ∀ p ∈ addPaths true true false false 0 .none true false, _
  py_paths addP_ttft
  add_paths_finish

theorem add_src_tttf (m : Market K) (r : Req K) (o : Order K) (tick dflt pr lp mp : K) (tt : Nat)
    (hb : m.buys = []) (hs : m.sells = []) (hside : r.isBuy = true) (hprice : r.price = some pr) (httl : r.ttl = some tt)
    (ht : m.time = 0) (hl : m.cur.last = none) (hm : m.cur.mid = none) (hmk : m.cur.market = some mp)
    (htick : tick ≠ NumOpsC.ofInt 0) :
    resultG addObs (rhoAdd m r o tick dflt) env XFUEL "Market._add_order" [.ref 5, .ref 1] (stAdd true true true false 0 .none false false)
      = modelAddObs m r (m.addOrder (srcOpsT K tick) r) := by
  rcases m with ⟨time, running, nextId, buys, sells, gone, ⟨cmk, clast, cmid, cfund, cev, cto, cnb, cns⟩, past⟩
  rcases r with ⟨agr, isBuyr, pricer, volr, ttlr⟩
  simp only at hb hs hside hprice httl ht hl hm hmk
  subst hb hs hside hprice httl ht hl hm hmk
  apply resultG_eq_of_pathsP hrefl_order
  show ∀ p ∈ addPaths true true true false 0 .none false false, _
  py_paths addP_tttf
  add_paths_finish

theorem add_src_tttt (m : Market K) (r : Req K) (o : Order K) (tick dflt pr lp mp : K) (tt : Nat)
    (hb : m.buys = []) (hs : m.sells = []) (hside : r.isBuy = true) (hprice : r.price = some pr) (httl : r.ttl = some tt)
    (ht : m.time = 0) (hl : m.cur.last = some lp) (hm : m.cur.mid = none) (hmk : m.cur.market = some mp)
    (htick : tick ≠ NumOpsC.ofInt 0) :
    resultG addObs (rhoAdd m r o tick dflt) env XFUEL "Market._add_order" [.ref 5, .ref 1] (stAdd true true true false 0 .none true false)
      = modelAddObs m r (m.addOrder (srcOpsT K tick) r) := by
  rcases m with ⟨time, running, nextId, buys, sells, gone, ⟨cmk, clast, cmid, cfund, cev, cto, cnb, cns⟩, past⟩
  rcases r with ⟨agr, isBuyr, pricer, volr, ttlr⟩
  simp only at hb hs hside hprice httl ht hl hm hmk
  subst hb hs hside hprice httl ht hl hm hmk
  apply resultG_eq_of_pathsP hrefl_order
  show ∀ p ∈ addPaths true true true false 0 .none true false, _
  py_paths addP_tttt
  add_paths_finish

theorem add_src_tfff (m : Market K) (r : Req K) (o : Order K) (tick dflt pr lp mp : K) (tt : Nat)
    (hb : m.buys = []) (hs : m.sells = []) (hside : r.isBuy = true) (hprice : r.price = none) (httl : r.ttl = none)
    (ht : m.time = 0) (hl : m.cur.last = none) (hm : m.cur.mid = none) (hmk : m.cur.market = some mp)
    (htick : tick ≠ NumOpsC.ofInt 0) :
    resultG addObs (rhoAdd m r o tick dflt) env XFUEL "Market._add_order" [.ref 5, .ref 1] (stAdd true false false false 0 .none false false)
      = modelAddObs m r (m.addOrder (srcOpsT K tick) r) := by
  rcases m with ⟨time, running, nextId, buys, sells, gone, ⟨cmk, clast, cmid, cfund, cev, cto, cnb, cns⟩, past⟩
  rcases r with ⟨agr, isBuyr, pricer, volr, ttlr⟩
  simp only at hb hs hside hprice httl ht hl hm hmk
  subst hb hs hside hprice httl ht hl hm hmk
  apply resultG_eq_of_pathsP hrefl_order
  show ∀ p ∈ addPaths true false false false 0 .none false false, _
  py_paths addP_tfff
  add_paths_finish

theorem add_src_tfft (m : Market K) (r : Req K) (o : Order K) (tick dflt pr lp mp : K) (tt : Nat)
    (hb : m.buys = []) (hs : m.sells = []) (hside : r.isBuy = true) (hprice : r.price = none) (httl : r.ttl = none)
    (ht : m.time = 0) (hl : m.cur.last = some lp) (hm : m.cur.mid = none) (hmk : m.cur.market = some mp)
    (htick : tick ≠ NumOpsC.ofInt 0) :
    resultG addObs (rhoAdd m r o tick dflt) env XFUEL "Market._add_order" [.ref 5, .ref 1] (stAdd true false false false 0 .none true false)
      = modelAddObs m r (m.addOrder (srcOpsT K tick) r) := by
  rcases m with ⟨time, running, nextId, buys, sells, gone, ⟨cmk, clast, cmid, cfund, cev, cto, cnb, cns⟩, past⟩
  rcases r with ⟨agr, isBuyr, pricer, volr, ttlr⟩
  simp only at hb hs hside hprice httl ht hl hm hmk
  subst hb hs hside hprice httl ht hl hm hmk
  apply resultG_eq_of_pathsP hrefl_order
  show ∀ p ∈ addPaths true false false false 0 .none true false, _
  py_paths addP_tfft
  add_paths_finish

theorem add_src_tftf (m : Market K) (r : Req K) (o : Order K) (tick dflt pr lp mp : K) (tt : Nat)
    (hb : m.buys = []) (hs : m.sells = []) (hside : r.isBuy = true) (hprice : r.price = none) (httl : r.ttl = some tt)
    (ht : m.time = 0) (hl : m.cur.last = none) (hm : m.cur.mid = none) (hmk : m.cur.market = some mp)
    (htick : tick ≠ NumOpsC.ofInt 0) :
    resultG addObs (rhoAdd m r o tick dflt) env XFUEL "Market._add_order" [.ref 5, .ref 1] (stAdd true false true false 0 .none false false)
      = modelAddObs m r (m.addOrder (srcOpsT K tick) r) := by
  rcases m with ⟨time, running, nextId, buys, sells, gone, ⟨cmk, clast, cmid, cfund, cev, cto, cnb, cns⟩, past⟩
  rcases r with ⟨agr, isBuyr, pricer, volr, ttlr⟩
  simp only at hb hs hside hprice httl ht hl hm hmk
  subst hb hs hside hprice httl ht hl hm hmk
  apply resultG_eq_of_pathsP hrefl_order
  show ∀ p ∈ addPaths true false true false 0 .none false false, _
  py_paths addP_tftf
  add_paths_finish

theorem add_src_tftt (m : Market K) (r : Req K) (o : Order K) (tick dflt pr lp mp : K) (tt : Nat)
    (hb : m.buys = []) (hs : m.sells = []) (hside : r.isBuy = true) (hprice : r.price = none) (httl : r.ttl = some tt)
    (ht : m.time = 0) (hl : m.cur.last = some lp) (hm : m.cur.mid = none) (hmk : m.cur.market = some mp)
    (htick : tick ≠ NumOpsC.ofInt 0) :
    resultG addObs (rhoAdd m r o tick dflt) env XFUEL "Market._add_order" [.ref 5, .ref 1] (stAdd true false true false 0 .none true false)
      = modelAddObs m r (m.addOrder (srcOpsT K tick) r) := by
  rcases m with ⟨time, running, nextId, buys, sells, gone, ⟨cmk, clast, cmid, cfund, cev, cto, cnb, cns⟩, past⟩
  rcases r with ⟨agr, isBuyr, pricer, volr, ttlr⟩
  simp only at hb hs hside hprice httl ht hl hm hmk
  subst hb hs hside hprice httl ht hl hm hmk
  apply resultG_eq_of_pathsP hrefl_order
  show ∀ p ∈ addPaths true false true false 0 .none true false, _
  py_paths addP_tftt
  add_paths_finish

end Pams.Src
