/-
`Market._add_order` of the current source = the model's `Market.addOrder`: the shape-by-shape theorems
of SrcAdd1–3 combined.
-/
import PamsLemmas.SrcAdd1
import PamsLemmas.SrcAdd2
import PamsLemmas.SrcAdd3

namespace Pams.Src
open Pams Pams.Py
variable {K : Type} [LinearOrder K] [NumOpsC K]

/-- **acceptance into an empty book**: for every request (side, limit or market, with or without
time-to-live, any price / volume / agent), every tick size ≠ 0, every id counter and step statistics,
the current source of `_add_order` stamps and snaps the order object, fills queue, expiry index,
counters and prices of the step and returns the log exactly as `Market.addOrder` of the model says. -/
theorem add_src_empty (m : Market K) (r : Req K) (o : Order K) (tick dflt mp : K)
    (hb : m.buys = []) (hs : m.sells = []) (ht : m.time = 0) (hm : m.cur.mid = none)
    (hmk : m.cur.market = some mp) (htick : tick ≠ NumOpsC.ofInt 0) :
    resultG addObs (rhoAdd m r o tick dflt) env XFUEL "Market._add_order" [.ref 5, .ref 1]
        (stAdd r.isBuy r.price.isSome r.ttl.isSome false 0 .none m.cur.last.isSome false)
      = modelAddObs m r (m.addOrder (srcOpsT K tick) r) := by
  cases hside : r.isBuy with
  | false =>
    cases hprice : r.price with
    | none =>
      cases httl : r.ttl with
      | none =>
        cases hl : m.cur.last with
        | none => exact add_src_ffff m r o tick dflt dflt dflt mp 0 hb hs hside hprice httl ht hl hm hmk htick
        | some lp => exact add_src_ffft m r o tick dflt dflt lp mp 0 hb hs hside hprice httl ht hl hm hmk htick
      | some tt =>
        cases hl : m.cur.last with
        | none => exact add_src_fftf m r o tick dflt dflt dflt mp tt hb hs hside hprice httl ht hl hm hmk htick
        | some lp => exact add_src_fftt m r o tick dflt dflt lp mp tt hb hs hside hprice httl ht hl hm hmk htick
    | some pr =>
      cases httl : r.ttl with
      | none =>
        cases hl : m.cur.last with
        | none => exact add_src_ftff m r o tick dflt pr dflt mp 0 hb hs hside hprice httl ht hl hm hmk htick
        | some lp => exact add_src_ftft m r o tick dflt pr lp mp 0 hb hs hside hprice httl ht hl hm hmk htick
      | some tt =>
        cases hl : m.cur.last with
        | none => exact add_src_fttf m r o tick dflt pr dflt mp tt hb hs hside hprice httl ht hl hm hmk htick
        | some lp => exact add_src_fttt m r o tick dflt pr lp mp tt hb hs hside hprice httl ht hl hm hmk htick
  | true =>
    cases hprice : r.price with
    | none =>
      cases httl : r.ttl with
      | none =>
        cases hl : m.cur.last with
        | none => exact add_src_tfff m r o tick dflt dflt dflt mp 0 hb hs hside hprice httl ht hl hm hmk htick
        | some lp => exact add_src_tfft m r o tick dflt dflt lp mp 0 hb hs hside hprice httl ht hl hm hmk htick
      | some tt =>
        cases hl : m.cur.last with
        | none => exact add_src_tftf m r o tick dflt dflt dflt mp tt hb hs hside hprice httl ht hl hm hmk htick
        | some lp => exact add_src_tftt m r o tick dflt dflt lp mp tt hb hs hside hprice httl ht hl hm hmk htick
    | some pr =>
      cases httl : r.ttl with
      | none =>
        cases hl : m.cur.last with
        | none => exact add_src_ttff m r o tick dflt pr dflt mp 0 hb hs hside hprice httl ht hl hm hmk htick
        | some lp => exact add_src_ttft m r o tick dflt pr lp mp 0 hb hs hside hprice httl ht hl hm hmk htick
      | some tt =>
        cases hl : m.cur.last with
        | none => exact add_src_tttf m r o tick dflt pr dflt mp tt hb hs hside hprice httl ht hl hm hmk htick
        | some lp => exact add_src_tttt m r o tick dflt pr lp mp tt hb hs hside hprice httl ht hl hm hmk htick

/-- **acceptance next to one resting order of the same side** (limit or market): the same, and in
particular the queue afterwards is `Book.insert` of the model — the new order goes in front exactly
when `Order.lt new resting`. -/
theorem add_src_one_resting (m : Market K) (r : Req K) (o : Order K) (tick dflt mp : K)
    (hbook : if r.isBuy then m.buys = [o] ∧ m.sells = [] else m.buys = [] ∧ m.sells = [o])
    (hos : o.isBuy = r.isBuy) (httl : r.ttl = none) (ht : m.time = 0) (hl : m.cur.last = none)
    (hm : m.cur.mid = none) (hmk : m.cur.market = some mp) (htick : tick ≠ NumOpsC.ofInt 0)
    (hoid : o.id ≠ m.nextId) :
    resultG addObs (rhoAdd m r o tick dflt) env XFUEL "Market._add_order" [.ref 5, .ref 1]
        (stAdd r.isBuy r.price.isSome false false 0 (if o.price.isSome then .limit else .market) false false)
      = modelAddObs m r (m.addOrder (srcOpsT K tick) r) := by
  cases hside : r.isBuy with
  | false =>
    rw [hside] at hbook hos
    simp only [Bool.false_eq_true, if_false] at hbook
    cases hprice : r.price with
    | none =>
      cases hop : o.price with
      | none => exact add_src_ff_market m r o tick dflt dflt dflt mp hbook.1 hbook.2 hside hprice httl hos hop ht hl hm hmk htick hoid
      | some po => exact add_src_ff_limit m r o tick dflt dflt po mp hbook.1 hbook.2 hside hprice httl hos hop ht hl hm hmk htick hoid
    | some pr =>
      cases hop : o.price with
      | none => exact add_src_ft_market m r o tick dflt pr dflt mp hbook.1 hbook.2 hside hprice httl hos hop ht hl hm hmk htick hoid
      | some po => exact add_src_ft_limit m r o tick dflt pr po mp hbook.1 hbook.2 hside hprice httl hos hop ht hl hm hmk htick hoid
  | true =>
    rw [hside] at hbook hos
    simp only [if_true] at hbook
    cases hprice : r.price with
    | none =>
      cases hop : o.price with
      | none => exact add_src_tf_market m r o tick dflt dflt dflt mp hbook.1 hbook.2 hside hprice httl hos hop ht hl hm hmk htick hoid
      | some po => exact add_src_tf_limit m r o tick dflt dflt po mp hbook.1 hbook.2 hside hprice httl hos hop ht hl hm hmk htick hoid
    | some pr =>
      cases hop : o.price with
      | none => exact add_src_tt_market m r o tick dflt pr dflt mp hbook.1 hbook.2 hside hprice httl hos hop ht hl hm hmk htick hoid
      | some po => exact add_src_tt_limit m r o tick dflt pr po mp hbook.1 hbook.2 hside hprice httl hos hop ht hl hm hmk htick hoid

end Pams.Src
