"""C18 — configuration expansion: json_extends, counts/ranges/names, JsonRandom supports,
find_class, Session.setup legacy keys.  Unit-level correspondence with Driver/Config.lean and
model-independent monitors."""
import copy
import math
import random
import warnings

import common
from common import LeanDriver, bits2f, digest, fbits, opt

import pams
from pams.logs.base import Logger
from pams.runners.sequential import SequentialRunner
from pams.session import Session
from pams.simulator import Simulator
from pams.utils.class_finder import find_class
from pams.utils.json_extends import json_extends
from pams.utils.json_random import JsonRandom


def runner_resolve(name, regs, builtin_names):
    """register `regs` with a fresh runner through its public `class_register` and resolve `name` against the
    runner's list, as `_generate_markets` / `_generate_agents` / `_generate_sessions` do; returns (class or
    None if refused, number of candidates)"""
    with warnings.catch_warnings():
        warnings.simplefilter("ignore")
        runner = SequentialRunner(settings={"simulation": {"markets": [], "agents": [], "sessions": []}},
                                  prng=random.Random(0))
        for c in regs:
            runner.class_register(c)
        try:
            got = find_class(name=name, optional_class_list=runner.registered_classes)
        except AttributeError:
            got = None
    mine = [r for r in regs if r.__name__ == name]
    cands = (1 if name in builtin_names else 0) + len({id(r) for r in mine})     # distinct classes of that name
    return got, cands, len(mine) != len({id(r) for r in mine})


def class_resolution_ok(name, regs, builtin_names, got, cands, same_twice):
    """exactly one distinct candidate: resolved to it (registering the very same class twice may also be refused:
    the unchanged code counts it twice); none or several distinct candidates: refused"""
    if cands != 1:
        return got is None
    if got is None:
        return same_twice
    return any(x is got for x in regs) or (name in builtin_names and getattr(got, "__module__", "").startswith("pams")
                                           and not any(r.__name__ == name for r in regs))


def viol(sig, requires, observed, inp):
    return {"signature": sig, "requires": requires, "observed": observed, "monitor": "C18", "input": inp}


# ---------------------------------------------------------------------------------------------
# (a) extends
# ---------------------------------------------------------------------------------------------
KEYS = ["extends", "a", "b", "c", "d", "from", "to"]
NAMES = ["A", "B", "C", "D", "E", "F", "G"]


def gen_extends(rng):
    n = rng.randint(1, 6)
    names = NAMES[:n]
    whole = {}
    for nm in names:
        d = {}
        for k in KEYS[1:]:
            if rng.random() < 0.45:
                d[k] = rng.randint(1, 9) * 10 + KEYS.index(k)
        r = rng.random()
        later = names[names.index(nm) + 1:]
        if r < 0.4 and later:
            d["extends"] = rng.choice(later)                  # acyclic chains and diamonds
        elif r < 0.55:
            d["extends"] = rng.choice(names)                  # self loops, cycles
        elif r < 0.65:
            d["extends"] = "MISSING"
        items = list(d.items())
        rng.shuffle(items)
        whole[nm] = dict(items)
    parent = rng.choice(names)
    excludes = rng.choice([None, [], ["from", "to"], ["a"], ["from", "to", "b"]])
    return {"whole": whole, "parent": parent, "excludes": excludes}


def ref_extends(whole, parent, excludes):
    """the property's words: own keys, then nearest ancestor defining the key, skipping
    non-inheritable keys; missing parents and cycles are errors"""
    excludes = excludes or []
    chain = [(parent, whole[parent], True)]
    seen = [parent]
    cur = whole[parent]
    while "extends" in cur:
        nm = cur["extends"]
        if nm not in whole:
            return "missing"
        if nm in seen:
            return "cycle"
        seen.append(nm)
        cur = whole[nm]
        chain.append((nm, cur, False))
    res = {}
    for _, d, own in chain:
        for k, v in d.items():
            if k == "extends":
                continue
            if not own and k in excludes:
                continue
            if k not in res:
                res[k] = v
    return res


def real_extends(case):
    whole = copy.deepcopy(case["whole"])
    before = copy.deepcopy(whole)
    try:
        r = json_extends(whole_json=whole, parent_name=case["parent"], target_json=whole[case["parent"]],
                         excludes_fields=case["excludes"])
        out = r
    except ValueError as e:
        out = "missing" if "is missing" in str(e) else ("cycle" if "loop" in str(e) else "ValueError:" + str(e))
    mutated = whole != before
    return out, mutated


def ext_line(case):
    names = {nm: i + 10 for i, nm in enumerate(sorted(set(list(case["whole"].keys()) + ["MISSING"])))}
    kcode = {k: i for i, k in enumerate(KEYS)}

    def obj(d):
        t = [str(len(d))]
        for k, v in d.items():
            t += [str(kcode[k]), str(names[v] if k == "extends" else v)]
        return " ".join(t)
    ex = case["excludes"] or []
    whole = case["whole"]
    return ("EXT %d %d %s %s %d %s" % (names[case["parent"]], len(ex), " ".join(str(kcode[k]) for k in ex),
                                       obj(whole[case["parent"]]), len(whole),
                                       " ".join("%d %s" % (names[nm], obj(d)) for nm, d in whole.items()))), kcode


# ---------------------------------------------------------------------------------------------
# (b) counts / ranges / ids / names, (c) accessible markets — through the real runner setup
# ---------------------------------------------------------------------------------------------
def gen_groups(rng):
    groups = []
    for gi in range(rng.randint(1, 4)):
        r = rng.random()
        if r < 0.25:
            spec = ("single",)
        elif r < 0.6:
            spec = ("count", rng.choice([1, 2, 3, 5, 9]))
        else:
            lo = rng.randint(0, 5)
            spec = ("range", lo, lo + rng.choice([0, 1, 2, 4]))
        groups.append(("G%d" % gi, spec))
    # groups that take everything, their count included, from another *listed* group through "extends"
    # (listed before or after their parent); `from` / `to` are not inheritable, so a child of a range group
    # is a single entity
    for ci in range(rng.choice([0, 0, 1, 2])):
        pname, pspec = rng.choice(groups)
        while pspec[0] == "inherit":
            pname, pspec = next(g for g in groups if g[0] == pspec[1])
        n = pspec[1] if pspec[0] == "count" else 1
        groups.insert(rng.randint(0, len(groups)), ("C%d" % ci, ("inherit", pname, n, pspec[0] == "count")))
    return groups


def build_cfg(mgroups, agroups, access):
    cfg = {"simulation": {"markets": [g for g, _ in mgroups], "agents": [g for g, _ in agroups],
                          "sessions": [{"sessionName": 0, "iterationSteps": 1, "withOrderPlacement": False,
                                        "withOrderExecution": False, "withPrint": False}]}}
    for g, spec in mgroups:
        d = {"class": "Market", "tickSize": 1.0, "marketPrice": 100.0}
        if spec[0] == "inherit":
            d = {"extends": spec[1]}
        if spec[0] == "count":
            d["numMarkets"] = spec[1]
        elif spec[0] == "range":
            d["from"], d["to"] = spec[1], spec[2]
        cfg[g] = d
    for (g, spec), acc in zip(agroups, access):
        d = {"class": "FCNAgent", "markets": acc, "assetVolume": 50, "cashAmount": 10000,
             "fundamentalWeight": 1.0, "chartWeight": 0.0, "noiseWeight": 1.0, "noiseScale": 0.001,
             "timeWindowSize": 100, "orderMargin": 0.01}
        if spec[0] == "inherit":
            d = {"extends": "A" + spec[1]}
        if spec[0] == "count":
            d["numAgents"] = spec[1]
        elif spec[0] == "range":
            d["from"], d["to"] = spec[1], spec[2]
        cfg["A" + g] = d
    cfg["simulation"]["agents"] = ["A" + g for g, _ in agroups]
    return cfg


def spec_count(spec):
    if spec[0] == "inherit":
        return spec[2]
    return 1 if spec[0] == "single" else (spec[1] if spec[0] == "count" else spec[2] - spec[1] + 1)


def name_parts(name, group):
    """(dash, suffix) of an entity name relative to its group name"""
    if name == group:
        return (False, None)
    rest = name[len(group):]
    if rest.startswith("-"):
        return (True, int(rest[1:]))
    return (False, int(rest))


# ---------------------------------------------------------------------------------------------
class StubPrng(random.Random):
    def __init__(self, u):
        super().__init__(0)
        self.u = u

    def random(self):
        return self.u


def run_C18(ctx, model_available=True):
    rng = ctx.rng("C18")
    scale = ctx.scale if ctx.tier == "thorough" else 1
    violations, diffs, samples = [], [], []
    lines, expects = [], []
    checks = 0
    seen, nontriv = set(), set()
    dist = {"extends": {"ok": 0, "missing": 0, "cycle": 0, "max_chain": 0}, "expand": {"single": 0, "count": 0, "range": 0, "inherit": 0, "range_len": {}},
            "uniform": 0, "expon": 0, "findclass": 0, "session": 0, "setups": 0, "markets_max": 0}

    def add_v(v):
        if not any(x["signature"] == v["signature"] for x in violations):
            violations.append(v)

    # (a) extends
    for i in range(400 * scale):
        case = gen_extends(rng)
        h = digest(["ext", case])
        seen.add(h)
        got, mutated = real_extends(case)
        want = ref_extends(case["whole"], case["parent"], case["excludes"])
        checks += 1
        if isinstance(want, dict):
            dist["extends"]["ok"] += 1
            depth = 0
            cur = case["whole"][case["parent"]]
            while "extends" in cur:
                depth += 1
                cur = case["whole"][cur["extends"]]
            dist["extends"]["max_chain"] = max(dist["extends"]["max_chain"], depth)
            if depth >= 3:
                nontriv.add(h)
        else:
            dist["extends"][want] += 1
            nontriv.add(h)
        if got != want:
            if isinstance(want, str):
                sig = "C18/extends-error-not-reported:" + want
            elif isinstance(got, str):
                sig = "C18/extends-spurious-error:" + got
            else:
                sig = "C18/extends-wrong-value"
            add_v(viol(sig, "inheritance yields own keys, then the nearest ancestor's value for each remaining key (skipping non-inheritable keys); missing parents and cycles are errors",
                       {"got": got, "expected": want}, {"kind": "extends", "case": case}))
        if mutated:
            add_v(viol("C18/extends-mutates-settings", "expansion does not modify the settings", {}, {"kind": "extends", "case": case}))
        ln, kcode = ext_line(case)
        lines.append(ln)
        if isinstance(got, dict):
            canon = sorted((kcode[k], v) for k, v in got.items())
        else:
            canon = got
        expects.append(("ext", canon, case))
        if len(samples) < 1 and isinstance(want, dict) and len(want) >= 3:
            samples.append({"extends_case": case, "result": got})

    # (b)+(c) counts, ranges, ids, names, access
    for i in range(80 * scale):
        mgroups = gen_groups(rng)
        agroups = gen_groups(rng)
        access = [rng.sample([g for g, _ in mgroups], rng.randint(1, len(mgroups))) for _ in agroups]
        for k, (g, spec) in enumerate(agroups):
            if spec[0] == "inherit":      # the list of market groups is inherited with everything else
                access[k] = access[[x for x, _ in agroups].index(spec[1])]
        if i % 9 == 0:
            mgroups.append(("Gbig", ("count", rng.choice([8, 12]))))
        cfg = build_cfg(mgroups, agroups, access)
        if i % 8 == 3:
            # colliding names: two groups writing the same `prefix`, a single entity named like a counted one, or two
            # sessions of one name -- the registry must refuse (unique names), never hold two entities of one name
            ccfg = copy.deepcopy(cfg)
            kind = rng.choice(["market", "agent", "session", "market-single"])
            base_m = {"class": "Market", "tickSize": 1.0, "marketPrice": 100.0}
            if kind == "market":
                ccfg["P1"] = dict(base_m, numMarkets=rng.choice([2, 3]), prefix="Q")
                ccfg["P2"] = dict(base_m, numMarkets=2, prefix="Q")
                ccfg["simulation"]["markets"] += ["P1", "P2"]
            elif kind == "market-single":
                ccfg["P1"] = dict(base_m, numMarkets=2)
                ccfg["P2"] = dict(base_m, prefix="P1-1")
                ccfg["simulation"]["markets"] += ["P1", "P2"] if rng.random() < 0.5 else ["P2", "P1"]
            elif kind == "agent":
                a0 = copy.deepcopy(ccfg[ccfg["simulation"]["agents"][0]])
                while "extends" in a0:
                    a0 = copy.deepcopy(ccfg[a0["extends"]])
                for k_ in ("from", "to", "numAgents"):
                    a0.pop(k_, None)
                ccfg["AP1"] = dict(a0, numAgents=2, prefix="Q")
                ccfg["AP2"] = dict(a0, numAgents=rng.choice([2, 4]), prefix="Q")
                ccfg["simulation"]["agents"] += ["AP1", "AP2"]
            else:
                ccfg["simulation"]["sessions"] = ccfg["simulation"]["sessions"] + [dict(ccfg["simulation"]["sessions"][0])]
            cinp = {"kind": "setup-collision", "config": ccfg, "colliding": kind}
            crunner = SequentialRunner(settings=copy.deepcopy(ccfg), prng=random.Random(rng.randint(0, 10 ** 6)))
            checks += 1
            dist["name_collisions"] = dist.get("name_collisions", 0) + 1
            nontriv.add(digest(["collision", ccfg]))
            try:
                with warnings.catch_warnings():
                    warnings.simplefilter("ignore")
                    crunner._setup()
                refused = None
            except ValueError as e:
                refused = str(e)
            except Exception as e:
                refused = None
                add_v(viol("C18/collision-setup-raised:%s" % type(e).__name__, "a name already in use is reported as an error (ValueError)",
                           {"error": "%s: %s" % (type(e).__name__, e), "colliding": kind}, cinp))
                continue
            if refused is None:
                csim = crunner.simulator
                for what, ents in (("market", csim.markets), ("agent", csim.agents), ("session", csim.sessions)):
                    nms = [e.name for e in ents]
                    if len(set(nms)) != len(nms):
                        add_v(viol("C18/duplicate-name-registered:" + what, "entities get unique names; a name already in use is refused",
                                   {"names": nms, "colliding": kind}, cinp))
        inp = {"kind": "setup", "config": cfg}
        h = digest(["setup", cfg])
        seen.add(h)
        before = copy.deepcopy(cfg)
        runner = SequentialRunner(settings=cfg, prng=random.Random(rng.randint(0, 10 ** 6)))
        checks += 1
        try:
            with warnings.catch_warnings():
                warnings.simplefilter("ignore")
                runner._setup()
        except Exception as e:
            add_v(viol("C18/setup-raised:%s:%s" % (type(e).__name__, str(e)[:40].split(" G")[0]),
                       "a group declared with a count or an inclusive id range creates exactly that many entities with unique consecutive ids and unique names",
                       {"error": "%s: %s" % (type(e).__name__, e), "market_groups": mgroups, "agent_groups": agroups}, inp))
            continue
        dist["setups"] += 1
        sim = runner.simulator
        dist["markets_max"] = max(dist["markets_max"], len(sim.markets))
        if any(s[0] == "range" and s[2] - s[1] in (0, 1) for _, s in mgroups + agroups) or len(sim.markets) >= 8:
            nontriv.add(h)
        counter = 0
        for kind, groups, registry, by_group in (("market", mgroups, sim.markets, sim.markets_group_name2market),
                                                 ("agent", [("A" + g, s) for g, s in agroups], sim.agents, sim.agents_group_name2agent)):
            counter = 0
            ids_all, names_all = [], []
            for g, spec in groups:
                ents = by_group.get(g, [])
                dist["expand"][spec[0]] += 1
                if spec[0] == "range":
                    dist["expand"]["range_len"][spec[2] - spec[1] + 1] = dist["expand"]["range_len"].get(spec[2] - spec[1] + 1, 0) + 1
                ids = [(e.market_id if kind == "market" else e.agent_id) for e in ents]
                names = [e.name for e in ents]
                checks += 1
                if len(ents) != spec_count(spec):
                    add_v(viol("C18/wrong-entity-count", "a count or inclusive range creates exactly that many entities",
                               {"group": g, "spec": spec, "created": len(ents)}, inp))
                if ids != list(range(counter, counter + len(ents))):
                    add_v(viol("C18/ids-not-consecutive", "entities get unique consecutive ids", {"group": g, "ids": ids, "expected_from": counter}, inp))
                mspec = spec
                if spec[0] == "inherit":      # for the model: the group it expands to
                    mspec = ("count", spec[2]) if spec[3] else ("single",)
                lines.append("EXPAND %d %d %d %d" % (counter, {"single": 0, "count": 1, "range": 2}[mspec[0]],
                                                     mspec[1] if len(mspec) > 1 else 0, mspec[2] if len(mspec) > 2 else 0))
                try:
                    parts = [name_parts(nm, g) for nm in names]
                except Exception:
                    parts = [("?", nm) for nm in names]
                expects.append(("expand", [(i_, d, s) for i_, (d, s) in zip(ids, parts)], {"group": g, "spec": spec, "names": names}))
                counter += len(ents)
                ids_all += ids
                names_all += names
            if len(set(names_all)) != len(names_all) or len(set(ids_all)) != len(ids_all):
                add_v(viol("C18/duplicate-id-or-name", "unique ids and unique names", {"names": names_all}, inp))
        # (c) access
        m_by_group = sim.markets_group_name2market
        for (g, spec), acc in zip(agroups, access):
            want = [m.market_id for grp in acc for m in m_by_group[grp]]
            for a in sim.agents_group_name2agent.get("A" + g, []):
                checks += 1
                got = sorted(a.asset_volumes.keys())
                if got != sorted(want):
                    add_v(viol("C18/agent-access-not-listed-groups", "agents can access exactly the markets of the groups they list",
                               {"agent": a.name, "accessible": got, "expected": sorted(want)}, inp))
        if cfg != before:
            add_v(viol("C18/setup-mutates-settings", "running does not modify the caller's settings object", {}, inp))
        if len(samples) < 2:
            samples.append({"market_groups": mgroups, "market_names": [m.name for m in sim.markets][:10]})

    # (d) JsonRandom supports
    for i in range(600 * scale):
        u = rng.choice([0.0, 1.0 - 2.0 ** -53, rng.random(), rng.random() * 1e-12, 0.5])
        lo = rng.choice([0.0, -5.0, 10.0, rng.uniform(-100, 100)])
        hi = lo + rng.choice([1e-9, 1.0, 10.0, rng.uniform(0.001, 1000)])
        jr = JsonRandom(prng=StubPrng(u))
        spec = rng.choice([[lo, hi], {"uniform": [lo, hi]}])
        got = jr.random(spec)
        checks += 1
        dist["uniform"] += 1
        seen.add(digest(["uni", u, lo, hi]))
        if not (lo <= got < hi) and not (got == hi and (hi - lo) < abs(hi) * 1e-15):
            # u*(hi-lo)+lo can round up to hi in doubles; the documented support is [lo, hi)
            if not (lo <= got <= hi and math.isclose(got, hi, rel_tol=1e-15)):
                add_v(viol("C18/uniform-outside-support", "uniform values fall in [a, b)", {"u": u, "lo": lo, "hi": hi, "value": got}, {"kind": "uniform", "u": u, "lo": lo, "hi": hi}))
        lines.append("UNIFORM %s %s %s" % (fbits(u), fbits(lo), fbits(hi)))
        expects.append(("uniform", got, {"u": u, "lo": lo, "hi": hi}))
        if u > 0:
            lam = rng.choice([0.5, 3.0, 100.0])
            ge = JsonRandom(prng=StubPrng(u)).random({"expon": [lam]})
            dist["expon"] += 1
            checks += 1
            if not ge > 0:
                add_v(viol("C18/expon-outside-support", "exponential values are positive", {"u": u, "lam": lam, "value": ge}, {"kind": "expon", "u": u, "lam": lam}))
            if not math.isclose(ge, lam * -math.log(u), rel_tol=1e-12):
                add_v(viol("C18/expon-wrong-value", "lam * -log(u)", {"u": u, "lam": lam, "value": ge}, {"kind": "expon", "u": u, "lam": lam}))
        c = JsonRandom(prng=StubPrng(u)).random({"const": [lo]})
        if c != float(lo):
            add_v(viol("C18/const-wrong-value", "const returns its value", {"value": c, "expected": lo}, {"kind": "const", "v": lo}))
    for bad in ([1, 2, 3], {"uniform": [1]}, {"const": 5}, {"normal": [0]}, {"expon": [1, 2]}, {"foo": [1]}, {"const": [1], "uniform": [0, 1]}):
        checks += 1
        try:
            JsonRandom(prng=StubPrng(0.5)).random(bad)
            add_v(viol("C18/malformed-distribution-accepted", "malformed specifications are errors", {"spec": bad}, {"kind": "bad-spec", "spec": bad}))
        except ValueError:
            pass

    # (e) find_class
    builtin_names = ["FCNAgent", "Market", "IndexMarket", "TradingHaltRule", "MarketMakerAgent", "Logger", "Session"]
    fc_history = []      # every resolution of this process so far (name, names of the registered classes)
    for i in range(150 * scale):
        regs = []
        for j in range(rng.randint(0, 4)):
            nm = rng.choice(["UserA", "UserB", "FCNAgent", "UserC", "Market"])
            regs.append(type(nm, (), {"tag": j}))
        name = rng.choice(builtin_names + ["UserA", "UserB", "UserC", "Nope"])
        checks += 1
        dist["findclass"] += 1
        seen.add(digest(["fc", name, [r.__name__ for r in regs]]))
        fc_history.append([name, [r.__name__ for r in regs]])
        try:
            got = find_class(name=name, optional_class_list=regs)
        except AttributeError:
            got = None
        n_builtin = 1 if name in builtin_names else 0
        cands = n_builtin + sum(1 for r in regs if r.__name__ == name)
        if (got is None) != (cands != 1):
            add_v(viol("C18/find-class-not-unique-resolution", "a class name resolves to exactly one class (built-in or registered), else it is an error",
                       {"name": name, "candidates": cands, "resolved": got is not None}, {"kind": "findclass-sequence", "history": [list(h) for h in fc_history]}))
        if got is not None and got.__name__ != name:
            add_v(viol("C18/find-class-wrong-class", "resolves to the class of that name", {"name": name, "got": got.__name__}, {"kind": "findclass", "name": name}))
        ncode = {n: k for k, n in enumerate(builtin_names + ["UserA", "UserB", "UserC", "Nope"])}
        b = [(ncode[n], 100 + k) for k, n in enumerate(builtin_names)]
        r = [(ncode[x.__name__], 200 + k) for k, x in enumerate(regs)]
        lines.append("FINDCLASS %d %d %s %d %s" % (ncode[name], len(b), " ".join("%d %d" % x for x in b), len(r), " ".join("%d %d" % x for x in r)))
        if got is None:
            exp = "-"
        elif any(x is got for x in regs):
            exp = str(200 + [k for k, x in enumerate(regs) if x is got][0])
        elif name in builtin_names and getattr(got, "__module__", "").startswith("pams"):
            exp = str(100 + builtin_names.index(name))
        else:
            # neither one of the classes registered for *this* resolution nor a built-in
            add_v(viol("C18/find-class-resolved-to-unregistered-class",
                       "a class name resolves to a built-in class or to one of the classes registered with this runner",
                       {"name": name, "got": repr(got), "registered_now": [repr(x) for x in regs]},
                       {"kind": "findclass-sequence", "history": [list(h) for h in fc_history],
                        "note": "the same name was resolved earlier in this process with another set of registered classes"}))
            exp = "?"
        expects.append(("findclass", exp, {"name": name, "registered": [x.__name__ for x in regs]}))
        # the same resolution the way a simulation does it: the classes registered with a runner
        # (`class_register`, one call per class, a class possibly twice) and the runner's own list
        twice = rng.random() < 0.15 and regs
        regs2 = regs + ([regs[0]] if twice else [])
        got2, cands2, same2 = runner_resolve(name, regs2, builtin_names)
        checks += 1
        if not class_resolution_ok(name, regs2, builtin_names, got2, cands2, same2):
            add_v(viol("C18/runner-class-resolution-not-unique",
                       "a class name resolves to exactly one class among the built-in classes and the classes registered with the runner, else it is an error",
                       {"name": name, "registered": [x.__name__ for x in regs2], "candidates": cands2,
                        "resolved_to": repr(got2)},
                       {"kind": "runner-findclass", "name": name, "registered": [x.__name__ for x in regs2],
                        "first_twice": bool(twice)}))

    # (f) legacy keys of Session.setup
    for i in range(120 * scale):
        base = {"sessionName": 0, "iterationSteps": 3, "withOrderPlacement": True, "withOrderExecution": True, "withPrint": False}
        which = rng.choice(["max", "rate", "both-max", "both-rate", "none"])
        v = rng.choice([0, 1, 3, 7]) if "max" in which else rng.choice([0.0, 0.25, 0.5, 1.0])
        pairs = {"max": ("maxHighFrequencyOrders", "maxHifreqOrders", "max_high_frequency_orders"),
                 "rate": ("highFrequencySubmitRate", "hifreqSubmitRate", "high_frequency_submission_rate")}
        checks += 1
        dist["session"] += 1
        seen.add(digest(["ses", which, v]))

        def setup(settings):
            s = Session(session_id=0, prng=random.Random(0), session_start_time=0, simulator=None, name="s")
            with warnings.catch_warnings():
                warnings.simplefilter("ignore")
                s.setup(settings)
            return {"max_high_frequency_orders": s.max_high_frequency_orders,
                    "high_frequency_submission_rate": s.high_frequency_submission_rate,
                    "max_normal_orders": s.max_normal_orders}
        if which in ("max", "rate"):
            new, legacy, attr = pairs[which]
            a = setup(dict(base, **{new: v}))
            b = setup(dict(base, **{legacy: v}))
            nontriv.add(digest(["ses", which, v]))
            if a != b:
                add_v(viol("C18/legacy-key-sets-other-parameter:" + legacy, "deprecated spellings set the same parameter as their replacement",
                           {"with_new_key": a, "with_legacy_key": b, "value": v}, {"kind": "session", "legacy": legacy, "new": new, "value": v}))
            code = int(v * 100)
            if which == "max":
                lines += ["SESSION %d - - -" % code, "SESSION - %d - -" % code]
            else:
                lines += ["SESSION - - %d -" % code, "SESSION - - - %d" % code]
            for res in (a, b):
                m = int(res["max_high_frequency_orders"] * 100) if which == "max" else None
                r = int(res["high_frequency_submission_rate"] * 100) if which == "rate" else None
                expects.append(("session", "V %s %s" % (opt(m), opt(r)), {"which": which, "value": v}))
        elif which.startswith("both"):
            new, legacy, attr = pairs[which[5:]]
            try:
                setup(dict(base, **{new: v, legacy: v}))
                add_v(viol("C18/both-spellings-accepted", "giving both spellings is an error", {"keys": (new, legacy)}, {"kind": "session", "both": (new, legacy)}))
            except ValueError:
                pass
            lines.append("SESSION 1 1 - -" if which == "both-max" else "SESSION - - 1 1")
            expects.append(("session", "ERR both", {"which": which}))

    compared = 0
    if model_available:
        out, err, dt = LeanDriver("Config").run(lines)
        if out is None:
            diffs.append({"channel": "driver", "detail": err[-1500:]})
        else:
            for o, (kind, exp, inp) in zip(out, expects):
                compared += 1
                if kind == "ext":
                    if o.startswith("OK"):
                        t = [int(x) for x in o.split()[2:]]
                        model = sorted(zip(t[0::2], t[1::2]))
                    else:
                        model = o.split()[1]
                    if model != exp:
                        diffs.append({"channel": "extends", "model": model, "impl": exp, "input": inp})
                elif kind == "expand":
                    t = o.split()[2:]
                    model = [(int(t[i]), t[i + 1] == "1", None if t[i + 2] == "-" else int(t[i + 2])) for i in range(0, len(t), 3)]
                    if model != exp:
                        diffs.append({"channel": "expand", "model": model, "impl": exp, "input": inp})
                elif kind == "uniform":
                    model = bits2f(o.split()[1])
                    if model != exp:
                        diffs.append({"channel": "jsonrandom.uniform", "model": model, "impl": exp, "input": inp})
                elif kind == "findclass":
                    if o.split()[1] != exp:
                        diffs.append({"channel": "findclass", "model": o.split()[1], "impl": exp, "input": inp})
                elif kind == "session":
                    if o != exp:
                        diffs.append({"channel": "session.attrs", "model": o, "impl": exp, "input": inp})
    return {"evaluations": len(seen), "distinct_nontrivial": len(nontriv),
            "rule": "generated inheritance graphs over <=6 named entries (chains, diamonds, self loops, cycles, missing parents, excluded keys); runner setups with 1-4 market and agent groups declared single / by count (1,2,3,5,9,8,12) / by inclusive range of length 1,2,3,5; JsonRandom with a stub uniform draw incl. 0 and 1-2^-53; find_class with registered classes incl. duplicate names; Session.setup with legacy and new keys; non-trivial = chain depth >= 3 or error case, range of length 1/2 or >= 8 markets, legacy-vs-new key pair",
            "samples": samples, "violations": violations, "diffs": diffs[:40],
            "comparisons": {"unit_comparisons": compared}, "traces_validated": compared,
            "distribution": dist, "monitor_checks": checks}


def replay_C18(obj):
    inp = obj["input"]
    out = []
    if inp["kind"] == "extends":
        got, _ = real_extends(inp["case"])
        want = ref_extends(inp["case"]["whole"], inp["case"]["parent"], inp["case"]["excludes"])
        if got != want:
            out.append({"signature": obj["signature"], "observed": {"got": got, "expected": want}})
    elif inp["kind"] == "setup":
        try:
            with warnings.catch_warnings():
                warnings.simplefilter("ignore")
                SequentialRunner(settings=copy.deepcopy(inp["config"]), prng=random.Random(0))._setup()
        except Exception as e:
            out.append({"signature": obj["signature"], "observed": {"error": "%s: %s" % (type(e).__name__, e)}})
    elif inp["kind"] == "setup-collision":
        r = SequentialRunner(settings=copy.deepcopy(inp["config"]), prng=random.Random(0))
        try:
            with warnings.catch_warnings():
                warnings.simplefilter("ignore")
                r._setup()
            for what, ents in (("market", r.simulator.markets), ("agent", r.simulator.agents), ("session", r.simulator.sessions)):
                nms = [e.name for e in ents]
                if len(set(nms)) != len(nms):
                    out.append({"signature": obj["signature"], "observed": {"names": nms}})
        except ValueError:
            pass
        except Exception as e:
            out.append({"signature": obj["signature"], "observed": {"error": "%s: %s" % (type(e).__name__, e)}})
    elif inp["kind"] == "findclass-sequence":
        builtin_names = ["FCNAgent", "Market", "IndexMarket", "TradingHaltRule", "MarketMakerAgent", "Logger", "Session"]
        for name, regnames in inp["history"]:
            regs = [type(nm, (), {"tag": j}) for j, nm in enumerate(regnames)]
            try:
                got = find_class(name=name, optional_class_list=regs)
            except AttributeError:
                got = None
            cands = (1 if name in builtin_names else 0) + sum(1 for r in regs if r.__name__ == name)
            ok_cls = got is None or any(x is got for x in regs) or (
                name in builtin_names and getattr(got, "__module__", "").startswith("pams"))
            if (got is None) != (cands != 1) or not ok_cls:
                out.append({"signature": obj["signature"], "observed": {"name": name, "registered": regnames, "got": repr(got)}})
                break
    elif inp["kind"] == "runner-findclass":
        builtin_names = ["FCNAgent", "Market", "IndexMarket", "TradingHaltRule", "MarketMakerAgent", "Logger", "Session"]
        names = list(inp["registered"])
        regs = [type(nm, (), {"tag": j}) for j, nm in enumerate(names[:-1] if inp.get("first_twice") else names)]
        if inp.get("first_twice") and regs:
            regs = regs + [regs[0]]
        got, cands, same = runner_resolve(inp["name"], regs, builtin_names)
        if not class_resolution_ok(inp["name"], regs, builtin_names, got, cands, same):
            out.append({"signature": obj["signature"], "observed": {"name": inp["name"], "registered": names, "got": repr(got)}})
    elif inp["kind"] == "session":
        base = {"sessionName": 0, "iterationSteps": 3, "withOrderPlacement": True, "withOrderExecution": True, "withPrint": False}
        res = []
        for key in (inp.get("new"), inp.get("legacy")):
            s = Session(session_id=0, prng=random.Random(0), session_start_time=0, simulator=None, name="s")
            with warnings.catch_warnings():
                warnings.simplefilter("ignore")
                s.setup(dict(base, **{key: inp["value"]}))
            res.append((s.max_high_frequency_orders, s.high_frequency_submission_rate))
        if res[0] != res[1]:
            out.append({"signature": obj["signature"], "observed": {"new": res[0], "legacy": res[1]}})
    return {"violations": out}
