"""In-process instrumentation of whole pams simulations through public extension points only:
recording prng, scripted agents, probe markets, probe simulator, recording logger, probe events.
Everything appends to one global, ordered event log from which the tapes for the Lean runner model
and the observations for the monitors are derived."""
import copy
import math
import random

from common import b2s, fbits

import pams
from pams.agents.base import Agent
from pams.agents.high_frequency_agent import HighFrequencyAgent
from pams.events.base import EventABC, EventHook
from pams.index_market import IndexMarket
from pams.logs.base import (CancelLog, ExecutionLog, ExpirationLog, Logger, MarketStepBeginLog,
                            MarketStepEndLog, OrderLog, SessionBeginLog, SessionEndLog,
                            SimulationBeginLog, SimulationEndLog)
from pams.logs.market_step_loggers import MarketStepPrintLogger, MarketStepSaver
from pams.market import Market
from pams.order import LIMIT_ORDER, MARKET_ORDER, Cancel, Order
from pams.runners.sequential import SequentialRunner
from pams.simulator import Simulator


class Rec:
    """the global ordered event log of one run"""

    def __init__(self):
        self.log = []
        self.next_ref = 0
        self.refs = {}          # id(obj) -> ref
        self.objs = {}          # ref -> obj (kept alive so id() stays unique)
        self.fill_refs = {}
        self.next_fill = 0
        self.sim = None
        self.depth = 0          # > 0 while inside a hook dispatch

    def ref_of(self, obj):
        k = id(obj)
        if k not in self.refs:
            self.refs[k] = self.next_ref
            self.objs[self.next_ref] = obj
            self.next_ref += 1
        return self.refs[k]

    def fill_ref(self, log):
        k = id(log)
        if k not in self.fill_refs:
            self.fill_refs[k] = self.next_fill
            self.objs[("f", self.next_fill)] = log
            self.next_fill += 1
        return self.fill_refs[k]

    def add(self, *ev):
        self.log.append(ev)


REC = None  # set per run


class RecRandom(random.Random):
    """records what the runner draws; overrides random and getrandbits together so that CPython
    keeps the getrandbits-based _randbelow and the stream is identical to random.Random"""

    def random(self):
        x = super().random()
        if REC is not None:
            REC.add("draw.u", x)
        return x

    def getrandbits(self, k):
        return super().getrandbits(k)

    def sample(self, population, k, **kw):
        r = super().sample(population, k, **kw)
        if REC is not None:
            REC.add("draw.sample", list(population), list(r))
        return r


# --------------------------------------------------------------------------------------------
# scripted agents
# --------------------------------------------------------------------------------------------
class _ScriptMixin:
    """order-producing program driven by the agent's own prng and the visible market state"""

    def setup(self, settings, accessible_markets_ids, *args, **kwargs):
        super().setup(settings=settings, accessible_markets_ids=accessible_markets_ids)
        self.p_empty = settings.get("pEmpty", 0.3)
        self.p_cancel = settings.get("pCancel", 0.15)
        self.p_market = settings.get("pMarket", 0.1)
        self.p_spoof = settings.get("pSpoof", 0.0)
        self.p_resubmit = settings.get("pResubmit", 0.0)
        self.max_batch = settings.get("maxBatch", 3)
        self.aggr = settings.get("aggr", 0.02)
        self.p_int = settings.get("pIntPrice", 0.0)
        self.max_vol = settings.get("maxVol", 3)
        self.my_orders = []
        self.callbacks = []

    def submit_orders(self, markets):
        rng = self.prng
        out = []
        if rng.random() >= self.p_empty:
            for _ in range(rng.randint(1, self.max_batch)):
                ms = [m for m in markets if self.is_market_accessible(m.market_id)]
                if not ms:
                    break
                m = rng.choice(ms)
                r = rng.random()
                if r < self.p_cancel and self.my_orders:
                    out.append(Cancel(order=rng.choice(self.my_orders)))
                elif r < self.p_cancel + self.p_resubmit and self.my_orders:
                    out.append(rng.choice(self.my_orders))
                else:
                    is_buy = rng.random() < 0.5
                    if rng.random() < self.p_market:
                        o = Order(agent_id=self.agent_id, market_id=m.market_id, is_buy=is_buy,
                                  kind=MARKET_ORDER, volume=rng.randint(1, self.max_vol),
                                  ttl=rng.choice([None, 1, 2, 5]))
                    else:
                        base = m.get_market_price()
                        px = base * (1.0 + rng.gauss(0.0, self.aggr))
                        if px <= 0 or not math.isfinite(px):
                            px = base
                        if self.p_int > 0 and rng.random() < self.p_int and px >= 1:
                            px = int(round(px))     # a whole-number price written as a Python int
                        o = Order(agent_id=self.agent_id, market_id=m.market_id, is_buy=is_buy,
                                  kind=LIMIT_ORDER, volume=rng.randint(1, self.max_vol), price=px,
                                  ttl=rng.choice([None, 1, 2, 3, 8]))
                    if rng.random() < self.p_spoof:
                        o.agent_id = (self.agent_id + 1) % max(1, len(self.simulator.agents))
                    out.append(o)
                    self.my_orders.append(o)
        return out


class _RecordMixin:
    """records what an agent returns from submit_orders and every callback it receives"""

    def submit_orders(self, markets):
        out = super().submit_orders(markets)
        reqs = []
        for q in out:
            if isinstance(q, Order):
                reqs.append({"owner": q.agent_id, "market": q.market_id, "cancel": False,
                             "ref": REC.ref_of(q), "price": q.price, "vol": q.volume,
                             "buy": q.is_buy, "ttl": q.ttl,
                             "kind": "MARKET" if q.price is None else "LIMIT"})
            else:
                reqs.append({"owner": q.order.agent_id, "market": q.order.market_id, "cancel": True,
                             "ref": REC.ref_of(q), "target": REC.ref_of(q.order)})
        REC.add("consult", self.agent_id, isinstance(self, HighFrequencyAgent), reqs)
        return out

    def _snap(self):
        return (self.cash_amount, dict(self.asset_volumes))

    def submitted_order(self, log):
        REC.add("cb", self.agent_id, "submitted", log, self._snap())
        super().submitted_order(log)

    def canceled_order(self, log):
        REC.add("cb", self.agent_id, "canceled", log, self._snap())
        super().canceled_order(log)

    def executed_order(self, log):
        REC.add("cb", self.agent_id, "executed", log, self._snap())
        super().executed_order(log)


class ScriptAgent(_RecordMixin, _ScriptMixin, Agent):
    pass


class ScriptHFT(_RecordMixin, _ScriptMixin, HighFrequencyAgent):
    pass


from pams.agents import ArbitrageAgent, FCNAgent, MarketMakerAgent, MarketShareFCNAgent  # noqa: E402


class ProbeFCNAgent(_RecordMixin, FCNAgent):
    pass


class ProbeMarketShareFCNAgent(_RecordMixin, MarketShareFCNAgent):
    pass


class ProbeMarketMakerAgent(_RecordMixin, MarketMakerAgent):
    pass


class ProbeArbitrageAgent(_RecordMixin, ArbitrageAgent):
    pass


# --------------------------------------------------------------------------------------------
# probe markets
# --------------------------------------------------------------------------------------------
class _ProbeMarketMixin:
    @property
    def _is_running(self):
        return self.__dict__.get("_is_running_value", False)

    @_is_running.setter
    def _is_running(self, v):
        if REC is not None:
            REC.add("setRunning", getattr(self, "market_id", None), v, REC.depth)
        self.__dict__["_is_running_value"] = v

    def _add_order(self, order, *args, **kwargs):       # extra arguments of a changed signature are passed through
        REC.add("call.add", self.market_id, REC.ref_of(order), order.agent_id,
                {"price": order.price, "vol": order.volume, "buy": order.is_buy, "ttl": order.ttl,
                 "kind": order.kind.name, "agent": order.agent_id,
                 "stamped": order.placed_at is not None or order.order_id is not None,
                 "mkt_ok": order.market_id == self.market_id})
        log = super()._add_order(order, *args, **kwargs)
        self.__dict__.setdefault("_verif_orders", {})[order.order_id] = order
        REC.add("ret.add", self.market_id, REC.ref_of(order), log)
        return log

    def _cancel_order(self, cancel, *args, **kwargs):
        REC.add("call.cancel", self.market_id, REC.ref_of(cancel), cancel.order.agent_id,
                {"order_id": cancel.order.order_id, "mkt_ok": cancel.order.market_id == self.market_id})
        log = super()._cancel_order(cancel, *args, **kwargs)
        REC.add("ret.cancel", self.market_id, REC.ref_of(cancel), log)
        return log

    def _execution(self, *args, **kwargs):
        REC.add("call.exec", self.market_id, self.is_running)
        logs = super()._execution(*args, **kwargs)
        known = self.__dict__.get("_verif_orders", {})

        def fields(o):
            return (o.order_id, o.is_buy, o.price, o.placed_at, o.volume)
        filled = {}
        for l in logs:
            for oid in (l.buy_order_id, l.sell_order_id):
                if oid in known:
                    filled[oid] = fields(known[oid])
        resting = [fields(o) for o in list(self.buy_order_book.priority_queue) + list(self.sell_order_book.priority_queue)]
        REC.add("ret.exec", self.market_id, list(logs), self.is_running, resting, filled)
        return logs

    def _update_time(self, next_fundamental_price):
        resting = [(o.order_id, o.placed_at, o.ttl, o.volume) for o in
                   list(self.buy_order_book.priority_queue) + list(self.sell_order_book.priority_queue)]
        REC.add("tick", self.market_id, self.time, next_fundamental_price, resting)
        super()._update_time(next_fundamental_price)
        REC.add("tick.done", self.market_id, self.time,
                sorted(o.order_id for o in list(self.buy_order_book.priority_queue)
                       + list(self.sell_order_book.priority_queue)))


class ProbeMarket(_ProbeMarketMixin, Market):
    pass


class ProbeIndexMarket(_ProbeMarketMixin, IndexMarket):
    pass


# --------------------------------------------------------------------------------------------
# probe simulator
# --------------------------------------------------------------------------------------------
class ProbeSimulator(Simulator):
    def __init__(self, prng, logger=None, fundamental_class=None):
        if fundamental_class is None:
            super().__init__(prng=prng, logger=logger)
        else:
            super().__init__(prng=prng, logger=logger, fundamental_class=fundamental_class)
        if REC is not None:
            REC.sim = self

    def _flag(self):
        s = self.current_session
        return None if s is None else s.with_order_execution

    def _states(self):
        return (self._flag(), tuple(m.is_running for m in self.markets))

    @staticmethod
    def _ofields(order):
        return {"buy": order.is_buy, "kind": order.kind.name, "price": order.price,
                "vol": order.volume, "ttl": order.ttl, "market": order.market_id,
                "agent": order.agent_id}

    def _funds(self, t):
        out = {}
        for m in self.markets:
            try:
                out[m.market_id] = m.get_fundamental_price(t)
            except Exception:
                out[m.market_id] = None
        return out

    def _trigger_event_before_order(self, order):
        mk = self.id2market[order.market_id]
        t = mk.get_time()
        REC.add("hook", "order_before", REC.ref_of(order), t, order.market_id)
        try:
            ref0 = mk.get_market_price(0)
        except Exception:
            ref0 = None
        REC.add("order.pre", REC.ref_of(order), self._ofields(order), mk.get_market_price(), t, ref0)
        REC.depth += 1
        try:
            super()._trigger_event_before_order(order)
        finally:
            REC.depth -= 1
        REC.add("order.post", REC.ref_of(order), self._ofields(order))

    def _trigger_event_after_order(self, order_log):
        REC.add("hook", "order_after", order_log, order_log.time, order_log.market_id)
        REC.depth += 1
        try:
            super()._trigger_event_after_order(order_log)
        finally:
            REC.depth -= 1

    def _trigger_event_before_cancel(self, cancel):
        t = self.id2market[cancel.market_id].get_time()
        REC.add("hook", "cancel_before", REC.ref_of(cancel), t, cancel.market_id)
        REC.depth += 1
        try:
            super()._trigger_event_before_cancel(cancel)
        finally:
            REC.depth -= 1

    def _trigger_event_after_cancel(self, cancel_log):
        REC.add("hook", "cancel_after", cancel_log, cancel_log.cancel_time, cancel_log.market_id)
        REC.depth += 1
        try:
            super()._trigger_event_after_cancel(cancel_log)
        finally:
            REC.depth -= 1

    def _trigger_event_after_execution(self, execution_log):
        before = self._states()
        mk = self.id2market[execution_log.market_id]
        REC.add("hook", "execution_after", REC.fill_ref(execution_log), execution_log.time,
                execution_log.market_id)
        REC.add("exec.pre", REC.fill_ref(execution_log), mk.get_market_price(0), mk.get_market_price())
        REC.depth += 1
        try:
            super()._trigger_event_after_execution(execution_log)
        finally:
            REC.depth -= 1
        after = self._states()
        REC.add("hookret", "execution_after", REC.fill_ref(execution_log), before, after)

    def _trigger_event_before_session(self, session):
        REC.add("hook", "session_before", session.session_id, session.session_start_time, None)
        REC.depth += 1
        try:
            super()._trigger_event_before_session(session)
        finally:
            REC.depth -= 1

    def _trigger_event_after_session(self, session):
        REC.add("hook", "session_after", session.session_id,
                session.session_start_time + session.iteration_steps - 1, None)
        REC.depth += 1
        try:
            super()._trigger_event_after_session(session)
        finally:
            REC.depth -= 1

    def _trigger_event_before_step_for_market(self, market):
        before = self._states()
        t = market.get_time()
        REC.add("hook", "market_before", market.market_id, t, market.market_id)
        REC.add("fund.pre", market.market_id, t, self._funds(t))
        REC.depth += 1
        try:
            super()._trigger_event_before_step_for_market(market)
        finally:
            REC.depth -= 1
        after = self._states()
        REC.add("fund.post", market.market_id, t, self._funds(t))
        REC.add("hookret", "market_before", market.market_id, before, after)

    def _trigger_event_after_step_for_market(self, market):
        REC.add("hook", "market_after", market.market_id, market.get_time(), market.market_id)
        REC.depth += 1
        try:
            super()._trigger_event_after_step_for_market(market)
        finally:
            REC.depth -= 1

    def _update_agents_for_execution(self, execution_logs):
        REC.add("ledger", [REC.fill_ref(l) for l in execution_logs], list(execution_logs),
                {a.agent_id: (a.cash_amount, dict(a.asset_volumes)) for a in self.agents})
        super()._update_agents_for_execution(execution_logs)
        REC.add("ledger.done", {a.agent_id: (a.cash_amount, dict(a.asset_volumes)) for a in self.agents})


# --------------------------------------------------------------------------------------------
# recording logger
# --------------------------------------------------------------------------------------------
def log_key(l):
    if isinstance(l, OrderLog):
        return ("order", l.market_id, l.order_id, l.time, l.agent_id, l.is_buy, l.kind.name, l.price, l.volume, l.ttl)
    if isinstance(l, CancelLog):
        return ("cancel", l.market_id, l.order_id, l.cancel_time, l.order_time, l.agent_id, l.is_buy, l.kind.name, l.price, l.volume, l.ttl)
    if isinstance(l, ExpirationLog):
        return ("expiry", l.market_id, l.order_id, l.time, l.order_time, l.agent_id, l.is_buy, l.kind.name, l.price, l.volume, l.ttl)
    if isinstance(l, ExecutionLog):
        return ("fill", l.market_id, l.time, l.buy_agent_id, l.sell_agent_id, l.buy_order_id, l.sell_order_id, l.price, l.volume)
    if isinstance(l, SimulationBeginLog):
        return ("simBegin",)
    if isinstance(l, SimulationEndLog):
        return ("simEnd",)
    if isinstance(l, SessionBeginLog):
        return ("sessionBegin", l.session.session_id)
    if isinstance(l, SessionEndLog):
        return ("sessionEnd", l.session.session_id)
    if isinstance(l, MarketStepBeginLog):
        return ("stepBegin", l.market.market_id, l.market.get_time(), l.session.session_id)
    if isinstance(l, MarketStepEndLog):
        return ("stepEnd", l.market.market_id, l.market.get_time(), l.session.session_id)
    return ("other", type(l).__name__)


class _RecLoggerMixin:
    def write(self, log):
        REC.add("log.write", log_key(log), id(log))
        super().write(log)

    def bulk_write(self, logs):
        for l in logs:
            REC.add("log.write", log_key(l), id(l))
        super().bulk_write(logs)

    def write_and_direct_process(self, log):
        REC.add("log.direct", log_key(log), id(log))
        super().write_and_direct_process(log)

    def _process(self):
        REC.add("log.flush", len(self.pending_logs))
        super()._process()

    def _deliver(self, log):
        REC.add("log.deliver", log_key(log), id(log))

    def process_order_log(self, log):
        self._deliver(log)

    def process_cancel_log(self, log):
        self._deliver(log)

    def process_expiration_log(self, log):
        self._deliver(log)

    def process_execution_log(self, log):
        self._deliver(log)

    def process_simulation_begin_log(self, log):
        self._deliver(log)

    def process_simulation_end_log(self, log):
        self._deliver(log)

    def process_session_begin_log(self, log):
        self._deliver(log)

    def process_session_end_log(self, log):
        self._deliver(log)

    def process_market_step_begin_log(self, log):
        # snapshot for C06 / C17: every market's clock and values at step begin
        sim = log.simulator
        REC.add("snap.begin", log.market.market_id, log.session.session_id,
                [(m.market_id, m.get_time(), m.is_running) for m in sim.markets],
                log.session.with_order_execution, log.session.with_order_placement)
        self._deliver(log)

    def process_market_step_end_log(self, log):
        # every market's clock at each step-end record as well (the step is closed for all markets before any
        # clock moves)
        REC.add("snap.end", log.market.market_id, log.session.session_id,
                [(m.market_id, m.get_time(), m.is_running) for m in log.simulator.markets])
        self._deliver(log)
        import contextlib
        import io
        with contextlib.redirect_stdout(io.StringIO()):
            super().process_market_step_end_log(log)      # what the built-in logger class does with it


class RecLogger(_RecLoggerMixin, Logger):
    pass


class RecSaver(_RecLoggerMixin, MarketStepSaver):
    """the recording logger on top of pams' own MarketStepSaver (the subclassing pattern of the examples)"""


class RecPrinter(_RecLoggerMixin, MarketStepPrintLogger):
    pass


LOGGER_CLASSES = [RecLogger, RecSaver, RecPrinter]


# --------------------------------------------------------------------------------------------
# probe events (user-written events with arbitrary hook sets)
# --------------------------------------------------------------------------------------------
class ProbeEvent(EventABC):
    def setup(self, settings, *args, **kwargs):
        self.hook_specs = settings.get("hooks", [])
        self.alter = settings.get("alterPrice")
        self.double_register = settings.get("doubleRegister", False)

    def hook_registration(self):
        hooks = []
        for i, h in enumerate(self.hook_specs):
            kw = {}
            if h.get("cls") == "Market":
                kw["specific_class"] = Market
            elif h.get("cls") == "IndexMarket":
                kw["specific_class"] = IndexMarket
            if h.get("inst") is not None:
                kw["specific_instance"] = self.simulator.name2market[h["inst"]]
            hk = EventHook(event=self, hook_type=h["type"], is_before=h["before"],
                           time=h.get("time"), **kw)
            hk.probe_index = i
            hooks.append(hk)
        if self.double_register and hooks:
            hooks.append(hooks[0])
        return hooks

    def _rec(self, kind, what, time, market):
        REC.add("probe", self.event_id, kind, what, time, market)

    def hooked_before_order(self, simulator, order):
        self._rec("order_before", REC.ref_of(order), simulator.id2market[order.market_id].get_time(),
                  order.market_id)
        if self.alter is not None and order.price is not None:
            order.price = order.price * self.alter

    def hooked_after_order(self, simulator, order_log):
        self._rec("order_after", id(order_log), order_log.time, order_log.market_id)

    def hooked_before_cancel(self, simulator, cancel):
        self._rec("cancel_before", REC.ref_of(cancel), simulator.id2market[cancel.market_id].get_time(),
                  cancel.market_id)

    def hooked_after_cancel(self, simulator, cancel_log):
        self._rec("cancel_after", id(cancel_log), cancel_log.cancel_time, cancel_log.market_id)

    def hooked_after_execution(self, simulator, execution_log):
        self._rec("execution_after", REC.fill_ref(execution_log), execution_log.time,
                  execution_log.market_id)

    def hooked_before_session(self, simulator, session):
        self._rec("session_before", session.session_id, session.session_start_time, None)

    def hooked_after_session(self, simulator, session):
        self._rec("session_after", session.session_id,
                  session.session_start_time + session.iteration_steps - 1, None)

    def hooked_before_step_for_market(self, simulator, market):
        self._rec("market_before", market.market_id, market.get_time(), market.market_id)

    def hooked_after_step_for_market(self, simulator, market):
        self._rec("market_after", market.market_id, market.get_time(), market.market_id)


REGISTER = [ScriptAgent, ScriptHFT, ProbeMarket, ProbeIndexMarket, ProbeEvent, ProbeFCNAgent,
            ProbeMarketShareFCNAgent, ProbeMarketMakerAgent, ProbeArbitrageAgent]


class SimRun:
    """one instrumented simulation"""

    def __init__(self, config, seed, fundamental_class=None, extra_classes=()):
        self.config = config
        self.seed = seed
        self.fundamental_class = fundamental_class
        self.extra_classes = list(extra_classes)
        self.error = None
        self.rec = None
        self.runner = None

    def run(self):
        global REC
        REC = Rec()
        self.rec = REC
        cfg = copy.deepcopy(self.config)
        self.cfg_copy = copy.deepcopy(cfg)
        logger = LOGGER_CLASSES[self.seed % 3]()      # every built-in logger class, by seed
        fc = self.fundamental_class

        class _Sim(ProbeSimulator):
            def __init__(s, prng, logger=None):
                ProbeSimulator.__init__(s, prng=prng, logger=logger, fundamental_class=fc)
        try:
            runner = SequentialRunner(settings=cfg, prng=RecRandom(self.seed), logger=logger,
                                      simulator_class=_Sim)
            self.runner = runner
            # the runner builds the simulator without a logger; pams' own main() leaves it so
            for c in REGISTER + self.extra_classes:
                runner.class_register(c)
            self.phase = "setup"
            runner._setup()
            REC.add("setup.done")
            self.initial = {a.agent_id: (a.cash_amount, dict(a.asset_volumes))
                            for a in runner.simulator.agents}
            self.phase = "run"
            runner._run()
            self.phase = "done"
        except Exception as e:  # recorded, compared, never hidden
            import traceback
            self.error = (type(e).__name__, str(e), self.phase, traceback.format_exc()[-1500:])
            REC.add("abort", type(e).__name__, str(e))
        self.settings_after = cfg
        self.sim = self.runner.simulator if self.runner is not None else None
        if self.sim is not None and self.sim.logger is None:
            pass
        REC = None
        return self
