"""Built-in events: C14 (shocks), C15 (price limit rule), C16 (trading halt rule): configuration
generators, monitors on whole runs, unit-level correspondence with Driver/Events.lean."""
import math
import random

import common
from common import LeanDriver, bits2f, digest, fbits
import runner_checks as rc
import runner_props
from runner_props import after_setup, viol

import pams
from pams.events import FundamentalPriceShock, OrderMistakeShock, PriceLimitRule, TradingHaltRule
from pams.logs.base import ExecutionLog
from pams.market import Market
from pams.order import LIMIT_ORDER, MARKET_ORDER, Order
from pams.session import Session
from pams.simulator import Simulator


# ---------------------------------------------------------------------------------------------
# configurations
# ---------------------------------------------------------------------------------------------
def base_cfg(rng, n_markets=None, steps=None, n_sessions=None):
    cfg = rc.gen_config(rng, opts={"n_markets": n_markets or rng.choice([1, 2, 3]), "index": False,
                                   "n_normal": rng.choice([3, 5, 8]), "n_hft": rng.choice([0, 1, 2]),
                                   "fcn": False, "steps": steps or rng.choice([6, 10, 16]),
                                   "n_sessions": n_sessions or rng.choice([1, 2, 3])})
    for nm in ("NA", "HA"):
        if nm in cfg:
            cfg[nm]["aggr"] = rng.choice([0.02, 0.05, 0.1])
            cfg[nm]["pMarket"] = rng.choice([0.0, 0.1])
    return cfg


def markets_of(cfg):
    return list(cfg["simulation"]["markets"])


def gen_C15(ctx, n):
    rng = ctx.rng("C15")
    for i in range(n):
        cfg = base_cfg(rng)
        mk = markets_of(cfg)
        targets = [m for m in mk if rng.random() < 0.6] or [mk[0]]
        if i % 3 == 0:
            targets = list(mk)
        rate = rng.choice([0.01, 0.02, 0.05, 0.0, 0.2])
        cfg["PLR"] = {"class": "PriceLimitRule", "targetMarkets": targets, "triggerChangeRate": float(rate),
                      "enabled": rng.random() < 0.9}
        if i % 4 == 1 and len(mk) >= 2:
            # the obsolete key `referenceMarket` (accepted with a warning, without effect): it names another
            # market, whose price at time 0 is different — the band stays the one around the order's own market
            ref = rng.choice([m for m in mk if m != targets[0]])
            cfg["PLR"]["referenceMarket"] = ref
            cfg[ref]["marketPrice"] = cfg[ref].get("marketPrice", 300.0) * rng.choice([0.5, 0.66, 1.7])
        evs = ["PLR"]
        others = [m for m in mk if m not in targets]
        if i % 3 == 1:
            # another event with a *timed* order hook registered before the rule (here an order-mistake
            # shock on a non-target market when there is one): the rule must still see every order
            steps0 = cfg["simulation"]["sessions"][0]["iterationSteps"]
            cfg["OMS"] = {"class": "OrderMistakeShock", "target": rng.choice(others) if others else rng.choice(mk),
                          "triggerTime": rng.randint(0, steps0 - 1), "priceChangeRate": 0.0 if not others else float(rng.choice([-0.05, 0.05])),
                          "orderVolume": 1, "orderTimeLength": 2, "enabled": bool(others)}
            evs = ["OMS", "PLR"]
            for nm in ("NA", "HA"):
                if nm in cfg:
                    cfg[nm]["aggr"] = 0.3          # far outside every band
                    cfg[nm]["pEmpty"] = 0.0
        if i % 3 == 2 and others:
            # a second rule of the same class with its own (disjoint) targets and rate — disabled half
            # of the time: every rule instance has its own target set, a disabled rule does nothing
            cfg["PLR2"] = {"class": "PriceLimitRule", "targetMarkets": [m for m in others if rng.random() < 0.7] or [others[0]],
                           "triggerChangeRate": float(rng.choice([0.03, 0.1, 0.0])), "enabled": rng.random() < 0.5}
            evs = ["PLR", "PLR2"] if rng.random() < 0.5 else ["PLR2", "PLR"]
            for nm in ("NA", "HA"):
                if nm in cfg:
                    cfg[nm]["aggr"] = 0.3
        if i % 4 == 1:
            # limit prices written as Python ints (whole numbers), far outside the band as well
            for nm in ("NA", "HA"):
                if nm in cfg:
                    cfg[nm]["pIntPrice"] = 0.5
                    cfg[nm]["aggr"] = max(cfg[nm].get("aggr", 0.02), 0.2)
        for k, s in enumerate(cfg["simulation"]["sessions"]):
            s["withOrderPlacement"] = True
            s["withOrderExecution"] = rng.random() < 0.8
            if k == 0:
                s["events"] = list(evs)
        yield cfg, rng.randint(0, 2 ** 31)


def gen_C16(ctx, n):
    rng = ctx.rng("C16")
    for i in range(n):
        cfg = base_cfg(rng, steps=rng.choice([8, 12, 20]))
        mk = markets_of(cfg)
        targets = [rng.choice(mk)] if rng.random() < 0.7 else list(mk)
        cfg["THR"] = {"class": "TradingHaltRule", "targetMarkets": targets,
                      "triggerChangeRate": float(rng.choice([0.001, 0.005, 0.01, 0.03, 0.5])),
                      "haltingTimeLength": rng.choice([0, 1, 2, 3, 5, 30]), "enabled": rng.random() < 0.9}
        ses = cfg["simulation"]["sessions"]
        owner = rng.randint(0, len(ses) - 1)
        for k, s in enumerate(ses):
            s["withOrderPlacement"] = True
            s["withOrderExecution"] = rng.random() < 0.7
            s["maxNormalOrders"] = max(2, s["maxNormalOrders"])
            if k == owner:
                s["events"] = ["THR"]
        yield cfg, rng.randint(0, 2 ** 31)


def gen_C14(ctx, n):
    rng = ctx.rng("C14")
    for i in range(n):
        cfg = base_cfg(rng)
        mk = markets_of(cfg)
        ses = cfg["simulation"]["sessions"]
        for s in ses:
            s["withOrderPlacement"] = True
            s["withOrderExecution"] = rng.random() < 0.6
            s["maxNormalOrders"] = max(2, s["maxNormalOrders"])
        k = rng.randint(0, len(ses) - 1)
        force_fps = False
        if i % 3 == 0:
            # deterministic fundamentals (zero volatility, non-zero drift): the whole series of every
            # market is then known in closed form, shock included, and is checked at every step
            for nm in mk:
                cfg[nm]["fundamentalVolatility"] = 0.0
                cfg[nm]["fundamentalDrift"] = rng.choice([0.0, 1e-4, -2e-4, 1e-3])
            force_fps = True
        if i % 6 == 3 and len(ses) >= 2:
            # a long quiet first session: the shock's absolute time lands on / around the 100-step
            # generation chunk of the fundamentals
            ses[0]["iterationSteps"] = rng.choice([100, 100, 99, 101, 200])
            ses[0]["withOrderPlacement"] = False
            k = 1
            force_fps = True
        steps = ses[k]["iterationSteps"]
        ev = []
        if rng.random() < 0.7 or force_fps:
            cfg["FPS"] = {"class": "FundamentalPriceShock", "target": rng.choice(mk),
                          "triggerTime": rng.choice([0, 0, 1, rng.randint(0, steps - 1)]) if force_fps else rng.randint(0, steps - 1),
                          "priceChangeRate": rng.choice([-0.1, 0.05, 0.3, -0.5]),
                          "shockTimeLength": rng.choice([1, 1, 2, 3, steps + 3, 0]), "enabled": rng.random() < 0.85}
            ev.append("FPS")
        if rng.random() < 0.7 or not ev:
            cfg["OMS"] = {"class": "OrderMistakeShock", "target": rng.choice(mk),
                          "triggerTime": rng.randint(0, steps - 1), "priceChangeRate": float(rng.choice([-0.05, 0.05, -0.2, 0.1, 0.0])),
                          "orderVolume": rng.choice([1, 10, 1000]), "orderTimeLength": rng.choice([1, 3, 10]),
                          "enabled": rng.random() < 0.85}
            ev.append("OMS")
        if "OMS" in ev and i % 4 == 1:
            # a price limit rule (an untimed order hook) on the shock's own target market with a band
            # narrower than the mistake: the mistaken order is still priced at market price x (1+rate)
            cfg["PLR"] = {"class": "PriceLimitRule", "targetMarkets": [cfg["OMS"]["target"]],
                          "triggerChangeRate": 0.01, "enabled": True}
            cfg["OMS"]["priceChangeRate"] = float(rng.choice([-0.05, 0.05, -0.2, 0.1, -0.5]))
            if rng.random() < 0.5:
                ev.append("PLR")
            else:
                ev.insert(0, "PLR")
        ses[k]["events"] = ev
        others = [j for j in range(len(ses)) if j != k and ses[j]["iterationSteps"] > 0 and i % 6 != 3]
        if "FPS" in ev and "OMS" in ev and others and i % 2 == 0:
            # the two shocks belong to *different* sessions (each session's events are registered on their own)
            j = rng.choice(others)
            cfg["OMS"]["triggerTime"] = rng.randint(0, ses[j]["iterationSteps"] - 1)
            ses[k]["events"] = [e for e in ev if e != "OMS"]
            ses[j]["events"] = ["OMS"]
        yield cfg, rng.randint(0, 2 ** 31)


# ---------------------------------------------------------------------------------------------
# monitors
# ---------------------------------------------------------------------------------------------
def clip_ref(p0, r, p):
    """the documented rule, evaluated independently"""
    if abs(p - p0) >= abs(p0 * r):
        return min(max(p, p0 * (1 - r)), p0 * (1 + r))
    return p


def mon_C15(run, cfg, seed):
    out, checks = [], 0
    if run.sim is None:
        return out, checks
    rule = cfg["PLR"]
    if run.error is not None:
        out.append(viol("C15", "C15/run-raised:" + run.error[0], "orders are accepted (clipped on target markets, unchanged elsewhere); nothing raises",
                        {"error": run.error[:3]}, cfg, seed))
    sim = run.sim
    # market id -> rate of the (enabled) rule that targets it; the generator keeps target sets disjoint
    targets = {}
    for rk in ("PLR", "PLR2"):
        rl = cfg.get(rk)
        if rl is not None and rl.get("enabled", True):
            for n in rl["targetMarkets"]:
                targets[sim.name2market[n].market_id] = rl["triggerChangeRate"]
    p0 = {m.market_id: m.get_market_price(0) for m in sim.markets if m.get_time() >= 0}
    tick = {m.market_id: m.tick_size for m in sim.markets}
    log = after_setup(run)
    pre = {}
    band_of_ref = {}
    band_of_order = {}
    run.c15 = {"clipped": 0, "unclipped": 0, "nontarget": 0}
    for ev in log:
        if ev[0] == "order.pre":
            pre[ev[1]] = (ev[2], ev[5])
        elif ev[0] == "ret.add":
            if ev[2] in band_of_ref:
                band_of_order[(ev[1], ev[3].order_id)] = (band_of_ref[ev[2]], ev[3].price)
        elif ev[0] == "order.post":
            ref, post = ev[1], ev[2]
            if ref not in pre:
                continue
            a, ref0 = pre[ref]
            checks += 1
            m = a["market"]
            if m in targets and a["price"] is not None:
                r = targets[m]
                # p0 = the market's price at time 0 as it stands when the order arrives
                want = clip_ref(ref0, r, a["price"])
                lo, hi = ref0 * (1 - r), ref0 * (1 + r)
                band_of_ref[ref] = (lo, hi)
                if post["price"] is None or not (lo - 1e-9 * abs(lo) <= post["price"] <= hi + 1e-9 * abs(hi)):
                    out.append(viol("C15", "C15/accepted-price-outside-band", "every limit order accepted on a target market has its price clipped into [p0(1-r), p0(1+r)]",
                                    {"requested": a["price"], "after_rule": post["price"], "band": (lo, hi)}, cfg, seed))
                elif post["price"] != want and not math.isclose(post["price"], want, rel_tol=1e-12):
                    out.append(viol("C15", "C15/price-inside-band-altered" if lo <= a["price"] <= hi else "C15/clipped-to-wrong-edge",
                                    "orders already inside the band pass unchanged; others move to the nearer edge",
                                    {"requested": a["price"], "after_rule": post["price"], "expected": want}, cfg, seed))
                if post["price"] != a["price"]:
                    run.c15["clipped"] += 1
                else:
                    run.c15["unclipped"] += 1
                if any(post[k] != a[k] for k in ("buy", "kind", "vol", "ttl", "market", "agent")):
                    out.append(viol("C15", "C15/other-fields-altered", "the rule alters the price only",
                                    {"before": a, "after": post}, cfg, seed))
            else:
                if m not in targets:
                    run.c15["nontarget"] += 1
                oms = cfg.get("OMS")
                if oms is not None and oms.get("enabled", True) and m == sim.name2market[oms["target"]].market_id:
                    continue        # the order-mistake shock configured on this (non-target) market may replace an order
                if post != a:
                    out.append(viol("C15", "C15/non-target-or-market-order-altered",
                                    "orders for non-target markets and market orders are accepted unchanged",
                                    {"before": a, "after": post, "target": m in targets}, cfg, seed))
        elif ev[0] == "ret.exec":
            for l in ev[2]:
                checks += 1
                if l.market_id in targets:
                    tk = tick[l.market_id]
                    # the trade price is the accepted limit price of one of its parties (C01): it must
                    # lie in that order's band widened by one tick
                    cands = [band_of_order.get((l.market_id, l.buy_order_id)), band_of_order.get((l.market_id, l.sell_order_id))]
                    cands = [c for c in cands if c is not None and c[1] == l.price]
                    if cands and not any(lo - tk <= l.price <= hi + tk for ((lo, hi), _) in cands):
                        out.append(viol("C15", "C15/trade-outside-widened-band", "no trade on a target market happens outside the band widened by one tick",
                                        {"price": l.price, "bands": [c[0] for c in cands], "tick": tk}, cfg, seed))
    return out, checks


def mon_C16(run, cfg, seed):
    out, checks = [], 0
    if run.sim is None:
        return out, checks
    sim = run.sim
    rule = cfg["THR"]
    enabled = rule.get("enabled", True)
    targets = {sim.name2market[n].market_id for n in rule["targetMarkets"]}
    rate, length = rule["triggerChangeRate"], rule["haltingTimeLength"]
    if run.error is not None:
        out.append(viol("C16", "C16/run-raised:" + run.error[0] + ":" + run.error[1][:30],
                        "orders can still be placed and cancelled during a halt; nothing raises", {"error": run.error[:3]}, cfg, seed))
    log = after_setup(run)
    ses_cfg = {s["id"]: s for s in run.session_cfgs}
    p0 = {}
    halted = None          # (market, t0, session)
    halts = 0
    cur_ses = None
    run.c16 = {"halts": 0, "resumes_in_session": 0}
    last_fill_time = None
    exec_pre = {}
    for i, ev in enumerate(log):
        k = ev[0]
        if k == "exec.pre":
            exec_pre[ev[1]] = (ev[2], ev[3])
        if k == "hook" and ev[1] == "session_before":
            cur_ses = ev[2]
            halted = None
        elif k == "call.exec":
            pass
        elif k == "ret.exec":
            for l in ev[2]:
                checks += 1
                if not ev[3] and False:
                    pass
        elif k == "hookret" and ev[1] == "execution_after":
            before, after = ev[3], ev[4]
            mk_ids = [m.market_id for m in sim.markets]
            # the fill
            fl = run.rec.objs.get(("f", ev[2]))
            checks += 1
            if fl is None:
                continue
            m = fl.market_id
            was_running = before[1][mk_ids.index(m)]
            if not was_running and halted is None:
                out.append(viol("C16", "C16/fill-on-market-not-running", "no fill is ever recorded on a market that is not running",
                                {"fill": rc.impl_runner.log_key(fl)}, cfg, seed))
            ref0, cur_price = exec_pre.get(ev[2], (None, None))
            p0[m] = ref0
            crossed = abs(ref0 - cur_price) >= abs(ref0 * rate * (halts + 1))
            now_running = after[1][mk_ids.index(m)]
            should_halt = enabled and m in targets and was_running and crossed
            if should_halt:
                if now_running or after[0]:
                    out.append(viol("C16", "C16/no-halt-at-the-line", "when the price deviates from its time-0 price by at least rate x (halts+1) after a fill on a target market, that market stops matching at once",
                                    {"fill": rc.impl_runner.log_key(fl), "p0": p0[m], "halts_so_far": halts}, cfg, seed))
                else:
                    halted = (m, fl.time, cur_ses)
                    halts += 1
                    run.c16["halts"] += 1
            else:
                if was_running and not now_running:
                    out.append(viol("C16", "C16/halt-below-the-line", "a market halts only when the moving halt line is reached",
                                    {"fill": rc.impl_runner.log_key(fl), "p0": p0[m], "halts_so_far": halts,
                                     "line": abs(p0[m] * rate * (halts + 1))}, cfg, seed))
                    halted = (m, fl.time, cur_ses)
                    halts += 1
        elif k == "snap.begin":
            # recorded right after the before-step handlers of market ev[1]
            mk_id, ses_id, states, flag, _ = ev[1], ev[2], ev[3], ev[4], ev[5]
            t = states[0][1]
            running = {a: c for (a, _, c) in states}
            checks += 1
            conf = ses_cfg[ses_id]["execution"]
            if halted is not None and halted[2] == ses_id:
                hm, t0, _ = halted
                if mk_id == hm:
                    if t <= t0 + length:
                        if running[hm] or flag:
                            out.append(viol("C16", "C16/resumed-too-early", "a halted market stays stopped for the configured number of further steps",
                                            {"market": hm, "halted_at": t0, "length": length, "time": t}, cfg, seed))
                            halted = None
                    else:
                        if not running[hm] or not flag:
                            out.append(viol("C16", "C16/not-resumed-on-schedule", "a halted market resumes at the step after the halt length",
                                            {"market": hm, "halted_at": t0, "length": length, "time": t}, cfg, seed))
                        else:
                            run.c16["resumes_in_session"] += 1
                        halted = None
            else:
                if flag != conf or running[mk_id] != conf:
                    out.append(viol("C16", "C16/matching-switched-without-halt",
                                    "a rule with no halt in force changes nothing: matching follows the session's configuration",
                                    {"session": ses_id, "configured_execution": conf, "flag": flag,
                                     "market": mk_id, "running": running[mk_id], "time": t}, cfg, seed))
    return out, checks


def mon_C14(run, cfg, seed):
    out, checks = [], 0
    if run.sim is None:
        return out, checks
    sim = run.sim
    if run.error is not None:
        out.append(viol("C14", "C14/run-raised:" + run.error[0], "shocks do not break the run", {"error": run.error[:3]}, cfg, seed))
    log = after_setup(run)
    ses = {s["id"]: s for s in run.session_cfgs}
    ses_of = {}
    for k, s in enumerate(cfg["simulation"]["sessions"]):
        for e in s.get("events", []):
            ses_of[e] = k
    run.c14 = {"fund_shocks": 0, "mistakes": 0}
    # fundamental shock
    f = cfg.get("FPS")
    fps_on = f is not None and f.get("enabled", True) and "FPS" in ses_of
    if f is not None:
        tgt = sim.name2market[f["target"]].market_id
        start = ses[ses_of.get("FPS", 0)]["start"] + f["triggerTime"] if "FPS" in ses_of else None
        ln = f.get("shockTimeLength", 1)
    pre = None
    for ev in log:
        if ev[0] == "fund.pre":
            pre = ev
        elif ev[0] == "fund.post" and pre is not None:
            m, t, after = ev[1], ev[2], ev[3]
            before = pre[3]
            checks += 1
            for mk, v in after.items():
                b = before.get(mk)
                if b is None or v is None:
                    continue
                expect = b
                if fps_on and mk == tgt and m == tgt and start <= t < start + ln:
                    expect = b * (1 + f["priceChangeRate"])
                    run.c14["fund_shocks"] += 1
                if v != expect and not math.isclose(v, expect, rel_tol=1e-12):
                    sig = "C14/fundamental-shock-missing-or-wrong-size" if expect != b else "C14/fundamental-changed-outside-shock"
                    out.append(viol("C14", sig, "a fundamental price shock multiplies the target's fundamental by (1+rate) once at each step of its window and at no other time and for no other market",
                                    {"market": mk, "step_market": m, "time": t, "before": b, "after": v, "expected": expect}, cfg, seed))
    # deterministic fundamentals: the whole series in closed form, for every market and every step
    if run.error is None and all(cfg[nm].get("fundamentalVolatility", 0.0) == 0.0 for nm in cfg["simulation"]["markets"]
                                 if isinstance(cfg.get(nm), dict) and "fundamentalVolatility" in cfg[nm]) and \
            not any(cfg[nm].get("class", "").endswith("IndexMarket") for nm in cfg["simulation"]["markets"]):
        for nm in cfg["simulation"]["markets"]:
            mkt = sim.name2market[nm]
            f0 = cfg[nm].get("marketPrice", 300.0) if cfg[nm].get("fundamentalPrice") is None else cfg[nm]["fundamentalPrice"]
            drift = cfg[nm].get("fundamentalDrift", 0.0)
            series = mkt.get_fundamental_prices()
            last_step = sum(x["iterationSteps"] for x in cfg["simulation"]["sessions"]) - 1   # last step that is run
            for t, v in enumerate(series):
                hits = 0
                if fps_on and mkt.market_id == tgt:
                    hits = max(0, min(t, start + ln - 1, last_step) - start + 1) if t >= start else 0
                want = f0 * math.exp(drift * t) * (1 + f["priceChangeRate"]) ** hits if f is not None else f0 * math.exp(drift * t)
                checks += 1
                if not math.isclose(v, want, rel_tol=1e-9):
                    out.append(viol("C14", "C14/fundamental-series-not-closed-form",
                                    "with deterministic fundamentals every market's fundamental at step t is initial x exp(drift t) x (1+rate)^(number of window steps <= t) for the target and initial x exp(drift t) for the others",
                                    {"market": nm, "time": t, "value": v, "expected": want, "window": [start, ln] if f is not None and fps_on else None}, cfg, seed))
                    break
    # order mistake shock
    o = cfg.get("OMS")
    oms_on = o is not None and o.get("enabled", True) and "OMS" in ses_of
    if o is not None:
        otgt = sim.name2market[o["target"]].market_id
        otime = ses[ses_of.get("OMS", 0)]["start"] + o["triggerTime"] if "OMS" in ses_of else None
    pre_o = {}
    replaced = False
    for ev in log:
        if ev[0] == "order.pre":
            pre_o[ev[1]] = (ev[2], ev[3], ev[4])
        elif ev[0] == "order.post":
            if ev[1] not in pre_o:
                continue
            a, mp, t = pre_o[ev[1]]
            post = ev[2]
            checks += 1
            expect = a
            if oms_on and not replaced and t == otime and a["market"] == otgt:
                replaced = True
                run.c14["mistakes"] += 1
                expect = dict(a, buy=o["priceChangeRate"] > 0, kind="LIMIT_ORDER", vol=o["orderVolume"],
                              ttl=o["orderTimeLength"], price=mp * (1 + o["priceChangeRate"]))
            bad = [k for k in expect if (post[k] != expect[k] and not (k == "price" and post[k] is not None and expect[k] is not None and math.isclose(post[k], expect[k], rel_tol=1e-12)))]
            plr = cfg.get("PLR")
            if bad == ["price"] and expect is a and plr is not None and plr.get("enabled", True) and \
                    a["market"] in {sim.name2market[n].market_id for n in plr["targetMarkets"]}:
                bad = []        # an ordinary order clipped by the price limit rule configured here (C15's business)
            if bad:
                if expect is a:
                    sig = "C14/order-altered-that-is-not-the-first-target-order"
                else:
                    sig = "C14/mistake-order-wrong:" + ",".join(bad)
                out.append(viol("C14", sig, "an order-mistake shock replaces exactly one order, the first submitted to its target market at its trigger time, by a limit order (volume, lifetime, market price x (1+rate), buy iff rate > 0)",
                                {"before": a, "after": post, "expected": expect, "time": t, "target_market": otgt if o else None}, cfg, seed))
    return out, checks


MONITORS = {"C14": mon_C14, "C15": mon_C15, "C16": mon_C16}
GENS = {"C14": gen_C14, "C15": gen_C15, "C16": gen_C16}


def nontrivial(prop, run, built):
    if prop == "C15":
        c = getattr(run, "c15", {})
        return c.get("clipped", 0) >= 1 and c.get("unclipped", 0) >= 1
    if prop == "C16":
        c = getattr(run, "c16", {})
        return c.get("halts", 0) >= 1
    if prop == "C14":
        c = getattr(run, "c14", {})
        return c.get("fund_shocks", 0) + c.get("mistakes", 0) >= 1
    return True


RULES = {
    "C14": "random multi-market, multi-session runs with a FundamentalPriceShock and/or an OrderMistakeShock at random session, trigger time, window, rate sign/size, enabled flag; non-trivial = run in which a shock fired; unit level: mistake hook on generated dispatch sequences",
    "C15": "random runs with a PriceLimitRule on a random subset of markets (all / some / one), rates 0..0.2; non-trivial = run with >=1 clipped and >=1 unclipped target order; unit level: get_limited_price on generated (p0, r, p) incl. exact band edges",
    "C16": "random runs with a TradingHaltRule (rate 0.001..0.5, lengths 0..30) listed in a random session, non-execution sessions before/after; non-trivial = run with >=1 halt; unit level: halt test and state machine on generated sequences",
}


# ---------------------------------------------------------------------------------------------
# unit-level correspondence with the Lean event models at Float
# ---------------------------------------------------------------------------------------------
def _mk_env(n_markets=2, price=300.0):
    sim = Simulator(prng=random.Random(0))
    ses = Session(session_id=0, prng=random.Random(1), session_start_time=0, simulator=sim, name="s")
    ses.setup({"sessionName": 0, "iterationSteps": 100, "withOrderPlacement": True,
               "withOrderExecution": True, "withPrint": False})
    sim._add_session(ses)
    mks = []
    for i in range(n_markets):
        m = Market(market_id=i, prng=random.Random(2), simulator=sim, name="m%d" % i)
        m.setup({"tickSize": 0.01, "marketPrice": price})
        sim._add_market(m)
        sim.fundamentals.add_market(market_id=i, initial=price, drift=0.0, volatility=0.0)
        m._update_time(next_fundamental_price=price)
        mks.append(m)
    sim.current_session = ses
    return sim, ses, mks


def unit_C15(ctx, n):
    rng = ctx.rng("unit15")
    lines, real, inputs = [], [], []
    for i in range(n):
        p0 = rng.choice([300.0, 100.0, 1.0, 12345.678, rng.uniform(0.5, 1000)])
        r = rng.choice([0.0, 0.01, 0.05, 0.1, 0.5, rng.uniform(0, 0.3)])
        kind = rng.random()
        if kind < 0.3:
            p = p0 * (1 + r) if rng.random() < 0.5 else p0 * (1 - r)      # exactly on an edge
        elif kind < 0.6:
            p = p0 * (1 + rng.uniform(-r, r))
        else:
            p = p0 * (1 + rng.uniform(-3 * r - 0.1, 3 * r + 0.1))
        if p <= 0:
            p = p0
        sim, ses, mks = _mk_env(2, p0)
        ev = PriceLimitRule(event_id=0, prng=random.Random(0), session=ses, simulator=sim, name="plr")
        ev.setup({"targetMarkets": ["m0"], "triggerChangeRate": float(r)})
        o = Order(agent_id=0, market_id=0, is_buy=True, kind=LIMIT_ORDER, volume=1, price=p)
        got = ev.get_limited_price(o, mks[0])
        lines.append("clip %s %s %s" % (fbits(p0), fbits(r), fbits(p)))
        real.append(got)
        inputs.append({"p0": p0, "r": r, "p": p})
    return lines, real, inputs


def unit_C16(ctx, n):
    rng = ctx.rng("unit16")
    lines, real, inputs = [], [], []
    for i in range(n):
        p0 = rng.choice([300.0, 100.0])
        rate = rng.choice([0.01, 0.05, 0.001])
        length = rng.choice([0, 1, 3, 7])
        sim, ses, mks = _mk_env(2, p0)
        ev = TradingHaltRule(event_id=0, prng=random.Random(0), session=ses, simulator=sim, name="thr")
        tg = ["m0"] if rng.random() < 0.6 else ["m0", "m1"]
        ev.setup({"targetMarkets": tg, "triggerChangeRate": rate, "haltingTimeLength": length})
        targets = [0] if len(tg) == 1 else [0, 1]
        for m in mks:
            m._is_running = True
            m._update_time(next_fundamental_price=p0)
        lines.append("HINIT")
        real.append(None)
        inputs.append(None)
        seq = []
        for step in range(rng.randint(6, 25)):
            # one step: before-step handlers for all markets, then maybe a fill
            for m in mks:
                if m.market_id not in targets:
                    continue          # the rule registers before-step hooks only for its targets
                flag0, run0 = ses.with_order_execution, m.is_running
                ev.hooked_before_step_for_market(simulator=sim, market=m)
                resumed = (not flag0 and ses.with_order_execution) or (not run0 and m.is_running)
                lines.append("HB %d %d %d" % (length, m.market_id, m.get_time()))
                real.append(1 if resumed else 0)
                inputs.append({"op": "before_step", "market": m.market_id, "time": m.get_time(), "seq": list(seq)})
                seq.append(("B", m.market_id, m.get_time()))
            if rng.random() < 0.6:
                m = rng.choice(mks)
                price = p0 * (1 + rng.choice([0.0, 0.5, 2.0, 5.0, -3.0]) * rate * (ev.activation_count + 1) * rng.choice([0.5, 1.0, 1.5]))
                # emulate a fill: last executed price drives the market price while running
                m._last_executed_prices[m.time] = price
                m._update_market_price()
                lg = ExecutionLog(market_id=m.market_id, time=m.get_time(), buy_agent_id=0, sell_agent_id=1,
                                  buy_order_id=0, sell_order_id=1, price=price, volume=1)
                k = ev.activation_count
                run0 = m.is_running
                mp = m.get_market_price()
                ev.hooked_after_execution(simulator=sim, execution_log=lg)
                haltd = run0 and not m.is_running
                lines.append("haltTest %s %s %s %d" % (fbits(m.get_market_price(0)), fbits(rate), fbits(mp), k))
                real.append(None)
                inputs.append({"op": "haltTest"})
                crossed_line = len(lines) - 1
                lines.append("HF %d %s %d %s CROSSED %d" % (len(targets), " ".join(map(str, targets)), m.market_id,
                                                            "1" if run0 else "0", m.get_time()))
                real.append(1 if haltd else 0)
                inputs.append({"op": "fill", "market": m.market_id, "price": price, "time": m.get_time(),
                               "running": run0, "p0": p0, "rate": rate, "halts_so_far": k, "seq": list(seq)})
                seq.append(("F", m.market_id, m.get_time(), price))
            for m in mks:
                m._update_time(next_fundamental_price=p0)
    return lines, real, inputs


def unit_C14(ctx, n):
    rng = ctx.rng("unit14")
    lines, real, inputs = [], [], []
    for i in range(n):
        sim, ses, mks = _mk_env(3, rng.choice([300.0, 77.5]))
        rate = float(rng.choice([0.05, -0.05, 0.0, -0.3, 1.5]))
        vol, ttl = rng.choice([1, 10, 999]), rng.choice([1, 5])
        tgt = rng.randint(0, 2)
        ev = OrderMistakeShock(event_id=0, prng=random.Random(0), session=ses, simulator=sim, name="oms")
        ev.setup({"target": "m%d" % tgt, "triggerTime": 0, "priceChangeRate": rate, "orderVolume": vol,
                  "orderTimeLength": ttl})
        lines.append("MINIT")
        real.append(None)
        inputs.append(None)
        seq = []
        for j in range(rng.randint(1, 6)):
            mk = rng.randint(0, 2)
            o = Order(agent_id=0, market_id=mk, is_buy=rng.random() < 0.5,
                      kind=LIMIT_ORDER, volume=2, price=123.0, ttl=7)
            before = (o.is_buy, o.kind.name, o.volume, o.price, o.ttl)
            mp = mks[mk].get_market_price()
            ev.hooked_before_order(simulator=sim, order=o)
            after = (o.is_buy, o.kind.name, o.volume, o.price, o.ttl)
            seq.append(mk)
            lines.append("MO %d %s %d %d %d %s" % (tgt, fbits(rate), vol, ttl, mk, fbits(mp)))
            real.append("-" if after == before else "%d %s %d %d" % (1 if o.is_buy else 0, fbits(o.price), o.volume, o.ttl))
            inputs.append({"target": tgt, "rate": rate, "dispatch_sequence_markets": list(seq), "before": before, "after": after})
    return lines, real, inputs


def run_units(prop, ctx, n):
    fn = {"C14": unit_C14, "C15": unit_C15, "C16": unit_C16}[prop]
    lines, real, inputs = fn(ctx, n)
    diffs = []
    # the haltTest result feeds the following HF line (CROSSED placeholder)
    out, err, dt = LeanDriver("Events").run([l.replace("CROSSED", "0") for l in lines]) if prop != "C16" else (None, "", 0)
    if prop == "C16":
        # two passes: first evaluate haltTest lines, then substitute
        tests = [l for l in lines if l.startswith("haltTest")]
        o1, err, dt = LeanDriver("Events").run(tests)
        if o1 is None:
            return 0, [{"channel": "driver", "detail": err[-1500:]}]
        it = iter(o1)
        res = []
        final = []
        last = "0"
        for l in lines:
            if l.startswith("haltTest"):
                last = next(it).split()[1]
                final.append(l)
            else:
                final.append(l.replace("CROSSED", last))
        out, err, dt = LeanDriver("Events").run(final)
    if out is None:
        return 0, [{"channel": "driver", "detail": err[-1500:]}]
    it = iter(out)
    compared = 0
    for l, r, inp in zip(lines, real, inputs):
        if l in ("HINIT", "MINIT", "HS"):
            continue
        o = next(it, None)
        if r is None:
            continue
        compared += 1
        if prop == "C15":
            model = bits2f(o.split()[1])
            if model != r and not (isinstance(r, float) and math.isclose(model, r, rel_tol=1e-12)):
                diffs.append({"channel": "clip", "model": model, "impl": r, "input": inp})
        elif prop == "C16":
            model = int(o.split()[1])
            if model != r:
                diffs.append({"channel": "halt.machine", "model": model, "impl": r, "input": inp})
        else:
            model = o[2:].strip()
            if model != r:
                diffs.append({"channel": "mistake.hook", "model": model, "impl": r, "input": inp})
    return compared, diffs


# ---------------------------------------------------------------------------------------------
# C19 inside whole simulations: the price an order is *accepted* at is on the grid and not more
# aggressive than the price it had when the before-order hooks were through with it (a price limit
# rule clips to a band edge that need not be on the grid; an order-mistake shock writes its own price)
# ---------------------------------------------------------------------------------------------
def mon_C19_run(run, cfg, seed):
    from fractions import Fraction
    violations, checks, offgrid = [], 0, 0
    if run.sim is None:
        return violations, checks, offgrid
    tick = {m.market_id: m.tick_size for m in run.sim.markets}
    post = {}
    for ev in after_setup(run):
        if ev[0] == "order.post":
            post[ev[1]] = ev[2]
        elif ev[0] == "ret.add" and ev[2] in post and ev[3].price is not None and post[ev[2]]["price"] is not None:
            asked, got, t = post[ev[2]]["price"], ev[3].price, tick[ev[3].market_id]
            checks += 1
            on_grid_asked = (asked % t == 0)
            if not on_grid_asked:
                offgrid += 1
            bad = None
            if got % t != 0:
                bad = "accepted-price-off-grid"
            elif on_grid_asked and got != asked:
                bad = "on-grid-price-changed"
            elif ev[3].is_buy and not (Fraction(got) <= Fraction(asked) and Fraction(asked) - Fraction(got) < Fraction(t) + Fraction(t) / 2 ** 40):
                bad = "buy-price-not-rounded-down-by-less-than-a-tick"
            elif (not ev[3].is_buy) and not (Fraction(got) >= Fraction(asked) and Fraction(got) - Fraction(asked) < Fraction(t) + Fraction(t) / 2 ** 40):
                bad = "sell-price-not-rounded-up-by-less-than-a-tick"
            if bad and not any(v["signature"] == "C19/" + bad for v in violations):
                violations.append(viol("C19", "C19/" + bad,
                                       "a limit price that is not on the grid when the order reaches the market (after the before-order hooks) is moved onto it before acceptance, downwards for buys and upwards for sells, by less than one tick",
                                       {"price_after_hooks": asked, "accepted": got, "tick": t, "is_buy": ev[3].is_buy}, cfg, seed))
    return violations, checks, offgrid


def replay_C19_sim(obj):
    inp = obj["input"]
    run = rc.run_sim(inp["config"], inp["seed"])
    vs, _, _ = mon_C19_run(run, inp["config"], inp["seed"])
    return {"violations": [{"signature": v["signature"], "observed": v["observed"]} for v in vs]}


def run_C19_sims(ctx, n=16):
    rng = ctx.rng("C19", "sims")
    violations, checks, evaluations, offgrid_after_hooks = [], 0, 0, 0
    for i in range(n * (ctx.scale if ctx.tier == "thorough" else 1)):
        cfg = base_cfg(rng, n_markets=rng.choice([1, 2]), steps=rng.choice([6, 10]), n_sessions=1)
        mk = markets_of(cfg)
        for nm in mk:
            cfg[nm]["tickSize"] = rng.choice([10.0, 7.0, 2.5, 0.25])
        cfg["PLR"] = {"class": "PriceLimitRule", "targetMarkets": [mk[0]], "triggerChangeRate": float(rng.choice([0.25, 0.07, 0.013]))}
        evs = ["PLR"]
        if i % 2 == 1:
            cfg["OMS"] = {"class": "OrderMistakeShock", "target": mk[-1], "triggerTime": rng.randint(0, 3),
                          "priceChangeRate": float(rng.choice([-0.033, 0.047])), "orderVolume": 2, "orderTimeLength": 3}
            evs.append("OMS")
        for s in cfg["simulation"]["sessions"]:
            s["events"] = list(evs)
            s["withOrderPlacement"] = True
        for nm in ("NA", "HA"):
            if nm in cfg:
                cfg[nm]["aggr"] = 0.4
                cfg[nm]["pEmpty"] = 0.0
        seed = rng.randint(0, 2 ** 31)
        run = rc.run_sim(cfg, seed)
        evaluations += 1
        vs, c, og = mon_C19_run(run, cfg, seed)
        checks += c
        offgrid_after_hooks += og
        for v in vs:
            if not any(x["signature"] == v["signature"] for x in violations):
                violations.append(v)
    return {"violations": violations, "monitor_checks": checks, "evaluations": evaluations,
            "orders_off_grid_after_hooks": offgrid_after_hooks}
