"""one run of one configuration in a fresh interpreter; prints a digest of the whole observable
outcome (every logger record, every agent notification, all price series, final holdings, and
whether the caller's settings object was modified).
usage: c07_worker.py <case.json> <mode>     mode ∈ plain | perturb:<n> | prior | sibling | same | reuse"""
import copy
import hashlib
import json
import os
import random
import sys

HERE = os.path.dirname(os.path.abspath(__file__))
sys.path.insert(0, HERE)
import common  # noqa: E402
import numpy as np  # noqa: E402

import runner_checks as rc  # noqa: E402
import impl_runner  # noqa: E402


def outcome(cfg, seed, settings=None):
    settings = copy.deepcopy(cfg) if settings is None else settings
    before = json.dumps(settings, sort_keys=True)
    run = rc.run_sim(settings, seed)
    outcome.last_run = run
    h = hashlib.sha256()
    parts = {"error": run.error[:2] if run.error else None}
    recs, cbs = [], []
    for ev in run.rec.log:
        if ev[0] == "log.deliver":
            recs.append(repr(ev[1]))
        elif ev[0] == "cb":
            cbs.append(repr((ev[1], ev[2], impl_runner.log_key(ev[3]))))
    series = []
    hold = []
    if run.sim is not None:
        for m in run.sim.markets:
            t = m.get_time()
            if t >= 0:
                series.append(repr((m.market_id, m.get_market_prices(), m.get_mid_prices(), m.get_last_executed_prices(),
                                    m.get_fundamental_prices(), m.get_executed_volumes(), m.get_executed_total_prices(),
                                    m.get_n_buy_orders(), m.get_n_sell_orders())))
        for a in run.sim.agents:
            hold.append(repr((a.agent_id, a.cash_amount, sorted(a.asset_volumes.items()))))
    parts["records"] = hashlib.sha256("\n".join(recs).encode()).hexdigest()
    parts["n_records"] = len(recs)
    parts["callbacks"] = hashlib.sha256("\n".join(cbs).encode()).hexdigest()
    parts["n_callbacks"] = len(cbs)
    parts["series"] = hashlib.sha256("\n".join(series).encode()).hexdigest()
    parts["holdings"] = hashlib.sha256("\n".join(hold).encode()).hexdigest()
    parts["settings_modified"] = json.dumps(run.config, sort_keys=True) != before or \
        json.dumps(run.settings_after, sort_keys=True, default=str) != json.dumps(run.cfg_copy, sort_keys=True, default=str)
    return parts


def main():
    case = json.load(open(sys.argv[1]))
    mode = sys.argv[2]
    if mode.startswith("perturb:"):
        n = int(mode.split(":")[1])
        random.seed(n)
        np.random.seed(n)
        for _ in range(n % 17 + 3):
            random.random()
            np.random.random()
        random.shuffle(list(range(10)))
    if mode == "prior":
        other = case["prior_config"]
        outcome(other, 12345)
    if mode == "sibling":
        # an earlier run, in the same process, of a configuration with the same entities but other
        # parameters (what a parameter sweep does): nothing of it may leak into this run
        outcome(case["sibling_config"], 777)
    if mode == "same":
        outcome(case["config"], case["seed"] + 1)
    if mode == "reuse":
        # the caller keeps one settings object and runs it twice: the second run must reproduce the
        # first (its outcome is the one compared), and the object must still equal the configuration
        first = outcome(case["config"], case["seed"])
        obj = outcome.last_run.settings_after      # the very object the runner was handed in the first run
        res = outcome(case["config"], case["seed"], settings=obj)
        res["settings_modified"] = res["settings_modified"] or first["settings_modified"] or \
            json.dumps(obj, sort_keys=True, default=str) != json.dumps(case["config"], sort_keys=True, default=str)
        print(json.dumps(res))
        return
    print(json.dumps(outcome(case["config"], case["seed"])))


if __name__ == "__main__":
    main()
