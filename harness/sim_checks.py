"""Closed-loop correspondence: a whole instrumented pams simulation against `PamsModel/Sim.lean`
(the scheduler model driving the market model) through `Driver/Sim.lean`.

Input of the model (the tape): sessions, permutations and uniform draws, what each agent handed
over (the orders as `_add_order` received them), the fundamental price every market recorded at
every clock step, and what handlers did to the execution switches at after-execution / before-step
dispatches.  Everything else is computed by the model and compared with the real run:

  sim.trace   the whole trace of scheduler actions (every alphabet at once), fills named by a counter
  sim.records per market: every order / cancel / expiry / fill record with all its fields (prices
              as doubles, bit for bit), in write order (expiries of one tick sorted by id)
  sim.final   per market: clock, running switch, next order id, both sides of the book in priority
              order, every slot of every per-step series
"""
import common
from common import LeanDriver, b2s, fbits, fkey, opt
import impl_runner
import runner_checks as rc


def _fx_tokens(flag, writes):
    t = [b2s(flag), str(len(writes))]
    for m, v in writes:
        t += [str(m), b2s(v)]
    return t


def sreq_tokens(r):
    c = r.get("call")
    t = [r["owner"], r["market"], b2s(r["cancel"]), r["ref"]]
    if r["cancel"]:
        mk_ok = True if c is None else c.get("mkt_ok", True)
        cid = 0 if c is None or c.get("order_id") is None else c["order_id"]
        t += [b2s(mk_ok), "0", 0, "0", "-", 0, "-", cid]
    else:
        if c is None:
            # never reached the market (an earlier request aborted the run): fields are irrelevant
            t += ["1", "0", r["owner"], b2s(r.get("buy", True)), fkey(r.get("price")), r.get("vol", 1), opt(r.get("ttl")), 0]
        else:
            t += [b2s(c.get("mkt_ok", True)), b2s(c.get("stamped", False)), c.get("agent", r["owner"]), b2s(c["buy"]),
                  fkey(c["price"]), c["vol"], opt(c["ttl"]), 0]
    fx = []
    for i, f in enumerate(r.get("fills") or []):
        if f.get("halts") or f.get("writes"):
            fx.append([str(i)] + _fx_tokens(bool(f.get("halts")), f.get("writes", [])))
    t.append(len(fx))
    for e in fx:
        t += e
    return " ".join(str(x) for x in t)


def supported(run, b):
    """the closed-loop model covers runs whose cancels refer to accepted orders and whose handlers
    touch the execution switches only where the built-in TradingHaltRule does"""
    why = list(getattr(b, "unsupported", []))
    for s in b.steps:
        groups = [reqs for _, reqs in s["ans"]] + [reqs for r in s["rounds"] for _, reqs in r["ans"]]
        for reqs in groups:
            for r in reqs:
                c = r.get("call")
                if r["cancel"] and c is not None and c.get("order_id") is None:
                    why.append("cancel of an order that was never accepted")
    return sorted(set(why))


def build_lines(run, b):
    sim = run.sim
    L = ["CASE 0"]
    mk = []
    for m in sim.markets:
        mk.append("%d %s %s %s %s" % (m.market_id, b2s(isinstance(m, impl_runner.IndexMarket)), fbits(m.tick_size),
                                       fkey(m.get_market_price(0)), fkey(b.fund0.get(m.market_id))))
    L.append("MK %d %s" % (len(mk), " ".join(mk)))
    for s in run.session_cfgs:
        L.append("SES %d %s %s %d %d %s" % (s["steps"], b2s(s["placement"]), b2s(s["execution"]),
                                            s["maxNormal"], s["maxHft"], fbits(s["rate"])))
    for s in b.steps:
        L.append("STEP %d" % s["session"])
        for m, fx in sorted(s.get("resfx", {}).items()):
            fw = fx.get("fund", [])
            L.append("RES %d %s %d %s" % (m, " ".join(_fx_tokens(fx["flag"], fx["writes"])), len(fw),
                                          " ".join("%d %s" % (k, fkey(v)) for k, v in fw)))
        perm = s["perm"] or []
        L.append("PERM %d %s" % (len(perm), " ".join(map(str, perm))))
        for a, reqs in s["ans"]:
            L.append("ANS %d %d %s" % (a, len(reqs), " ".join(sreq_tokens(r) for r in reqs)))
        shuf = s["shuf"] or []
        L.append("SHUF %d %s" % (len(shuf), " ".join(map(str, shuf))))
        for r in s["rounds"]:
            perm = r["perm"] or []
            L.append("ROUND %s %d %s" % (fbits(r["u"]), len(perm), " ".join(map(str, perm))))
            for a, reqs in r["ans"]:
                L.append("ANSH %d %d %s" % (a, len(reqs), " ".join(sreq_tokens(r2) for r2 in reqs)))
        for m, f in sorted(s.get("fund", {}).items()):
            L.append("FUND %d %s" % (m, fkey(f)))
        L.append("ENDSTEP")
    L.append("RUN")
    return L


def real_records(run):
    """per market: records in write order, in the driver's format"""
    out = {}
    started = False
    for ev in run.rec.log:
        if ev[0] == "setup.done":
            started = True
        if not started or ev[0] != "log.write":
            continue
        k = ev[1]
        if k[0] == "order":
            _, mid, oid, t, ag, buy, kind, price, vol, ttl = k
            out.setdefault(mid, []).append("order %s %d %d %s %s %d %s" % (opt(oid), t, ag, b2s(buy), fkey(price), vol, opt(ttl)))
        elif k[0] == "cancel":
            _, mid, oid, ct, ot, ag, buy, kind, price, vol, ttl = k
            out.setdefault(mid, []).append("cancel %s %d %s %d %s %s %d %s" % (opt(oid), ct, opt(ot), ag, b2s(buy), fkey(price), vol, opt(ttl)))
        elif k[0] == "expiry":
            _, mid, oid, t, ot, ag, buy, kind, price, vol, ttl = k
            out.setdefault(mid, []).append("expiry %s %d %s %d %s %s %d %s" % (opt(oid), t, opt(ot), ag, b2s(buy), fkey(price), vol, opt(ttl)))
        elif k[0] == "fill":
            _, mid, t, ba, sa, bid, sid, price, vol = k
            out.setdefault(mid, []).append("fill %d %d %d %s %s %s %d" % (t, ba, sa, opt(bid), opt(sid), fkey(price), vol))
    return out


def canon_records(lines):
    """expiries written by one clock step come out of a dict of lists: sort each run of them by id"""
    out, run_ = [], []
    for l in lines:
        if l.startswith("expiry "):
            run_.append(l)
        else:
            out += sorted(run_, key=lambda x: (int(x.split()[2]), int(x.split()[1]) if x.split()[1] != "-" else -1))
            run_ = []
            out.append(l)
    out += sorted(run_, key=lambda x: (int(x.split()[2]), int(x.split()[1]) if x.split()[1] != "-" else -1))
    return out


def pop_order(heap):
    import heapq
    h = list(heap)
    heapq.heapify(h)
    return [heapq.heappop(h) for _ in range(len(h))]


def real_final(m):
    def order(o):
        return "%d/%d/%s/%s/%d/%d/%s" % (o.order_id, o.agent_id, b2s(o.is_buy), fkey(o.price), o.volume, o.placed_at, opt(o.ttl))

    def slot(t):
        return "%s %s %s %s %d %s %d %d" % (fkey(m._market_prices[t]), fkey(m._last_executed_prices[t]), fkey(m._mid_prices[t]),
                                             fkey(m._fundamental_prices[t]), m._executed_volumes[t],
                                             fkey(float(m._executed_total_prices[t])), m._n_buy_orders[t], m._n_sell_orders[t])
    T = m.get_time()
    buys = pop_order(m.buy_order_book.priority_queue)
    sells = pop_order(m.sell_order_book.priority_queue)
    s = "F %d %d %s %d B[%s] S[%s] %s %d" % (m.market_id, T, b2s(m.is_running), m._next_order_id,
                                            " ".join(order(o) for o in buys), " ".join(order(o) for o in sells), slot(T), T)
    for t in range(T - 1, -1, -1):
        s += " " + slot(t)
    return s


def compare(run, b, out):
    """returns list of diffs between the model's output lines and the real run"""
    diffs = []
    model_tr = [l[2:] for l in out if l.startswith("M ")]
    errs = [l for l in out if l.startswith("E ")]
    if errs:
        return [{"channel": "sim.driver", "detail": errs[:3]}]
    if model_tr != b.trace:
        k = next((i for i, (x, y) in enumerate(zip(model_tr, b.trace)) if x != y), min(len(model_tr), len(b.trace)))
        diffs.append({"channel": "sim.trace", "at": k, "model": model_tr[k:k + 4], "impl": b.trace[k:k + 4],
                      "context": b.trace[max(0, k - 4):k]})
    ok_line = next((l for l in out if l.startswith("OK ")), "OK ?")
    aborted = run.error is not None
    if ok_line != "OK %s" % b2s(not aborted):
        diffs.append({"channel": "sim.trace", "detail": "model %s, run %s" % (ok_line, "aborted: %s" % (run.error[:2],) if aborted else "completed")})
    if aborted:
        return diffs          # state after an exception is not part of the comparison
    recs = {}
    for l in out:
        if l.startswith("R "):
            _, mid, rest = l.split(" ", 2)
            recs.setdefault(int(mid), []).append(rest.replace("true", "1").replace("false", "0"))
    real = real_records(run)
    for m in run.sim.markets:
        a = canon_records(recs.get(m.market_id, []))
        r = canon_records(real.get(m.market_id, []))
        if a != r:
            k = next((i for i, (x, y) in enumerate(zip(a, r)) if x != y), min(len(a), len(r)))
            diffs.append({"channel": "sim.records", "market": m.market_id, "at": k, "model": a[k:k + 2], "impl": r[k:k + 2],
                          "n_model": len(a), "n_impl": len(r)})
    finals = {int(l.split()[1]): l for l in out if l.startswith("F ")}
    for m in run.sim.markets:
        want = real_final(m)
        got = finals.get(m.market_id, "")
        if got != want:
            gt, wt = got.split(" "), want.split(" ")
            k = next((i for i, (x, y) in enumerate(zip(gt, wt)) if x != y), min(len(gt), len(wt)))
            diffs.append({"channel": "sim.final", "market": m.market_id, "token": k, "model": " ".join(gt[max(0, k - 3):k + 5]),
                          "impl": " ".join(wt[max(0, k - 3):k + 5])})
    return diffs


def check_runs(runs):
    """runs: list of (run, built).  Returns (diffs, stats)."""
    lines, kept = [], []
    stats = {"runs": 0, "unsupported": {}, "requests": 0, "fills": 0, "records": 0}
    for run, b in runs:
        if run.sim is None or not b.ok:
            continue
        why = supported(run, b)
        if why:
            for w in why:
                stats["unsupported"][w] = stats["unsupported"].get(w, 0) + 1
            continue
        lines += build_lines(run, b)
        kept.append((run, b))
    if not kept:
        return [], stats
    out, err, dt = LeanDriver("Sim").run(lines)
    if out is None:
        return [{"channel": "sim.driver", "detail": err[-1500:]}], stats
    # split per case
    cases, cur = [], []
    for l in out:
        if l == "ENDCASE":
            cases.append(cur)
            cur = []
        else:
            cur.append(l)
    diffs = []
    for (run, b), o in zip(kept, cases):
        stats["runs"] += 1
        stats["fills"] += sum(1 for l in o if l.startswith("R ") and " fill " in l)
        stats["records"] += sum(1 for l in o if l.startswith("R "))
        stats["requests"] += sum(1 for l in o if l.startswith("M addOrder") or l.startswith("M cancel"))
        for d in compare(run, b, o):
            d["config"] = run.config
            d["seed"] = run.seed
            diffs.append(d)
    return diffs, stats


def sim_batch(ctx, prop, n, channels, tag="sim"):
    """a batch of whole simulations (plain, with trading halts / price limits / shocks, with built-in
    agents and index markets) compared with the closed-loop model; returns (diffs on `channels`, stats)"""
    import events_props
    rng = ctx.rng(tag + prop)
    runs = []
    for i in range(n):
        k = i % 4
        if k == 0:
            cfg = rc.gen_config(rng)
        elif k == 1:
            cfg = rc.gen_config(rng, opts={"n_markets": rng.choice([2, 3]), "index": True, "fcn": True,
                                           "n_normal": rng.choice([3, 6]), "steps": rng.choice([6, 12])})
        elif k == 2:
            cfg = events_props.base_cfg(rng)
            mk = events_props.markets_of(cfg)
            cfg["THR"] = {"class": "TradingHaltRule", "targetMarkets": [rng.choice(mk)],
                          "triggerChangeRate": float(rng.choice([0.001, 0.005, 0.02])), "haltingTimeLength": rng.choice([1, 2, 4])}
            cfg["PLR"] = {"class": "PriceLimitRule", "targetMarkets": list(mk), "triggerChangeRate": 0.05}
            for s in cfg["simulation"]["sessions"]:
                s["withOrderPlacement"] = True
            cfg["simulation"]["sessions"][0]["events"] = ["THR", "PLR"]
        else:
            cfg = events_props.base_cfg(rng)
            mk = events_props.markets_of(cfg)
            steps = cfg["simulation"]["sessions"][0]["iterationSteps"]
            cfg["FPS"] = {"class": "FundamentalPriceShock", "target": rng.choice(mk), "triggerTime": rng.randint(0, steps - 1),
                          "priceChangeRate": rng.choice([-0.1, 0.2]), "shockTimeLength": rng.choice([1, 2, 3, 0])}
            cfg["OMS"] = {"class": "OrderMistakeShock", "target": rng.choice(mk), "triggerTime": rng.randint(0, steps - 1),
                          "priceChangeRate": float(rng.choice([-0.05, 0.05])), "orderVolume": rng.choice([1, 50]), "orderTimeLength": 3}
            for s in cfg["simulation"]["sessions"]:
                s["withOrderPlacement"] = True
            cfg["simulation"]["sessions"][0]["events"] = ["FPS", "OMS"]
        seed = rng.randint(0, 2 ** 31)
        run = rc.run_sim(cfg, seed)
        runs.append((run, rc.build(run)))
    diffs, stats = check_runs(runs)
    return [d for d in diffs if d["channel"] in channels or d["channel"] == "sim.driver"], stats
