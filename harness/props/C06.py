"""C06 — market-level (history never changes, future refused; PamsProps/C06.lean, Driver/Market)
and scheduler-level (lock-step clock, session spans; PamsProps/C06R.lean, Driver/Runner)."""
import market_checks
import runner_props

PROP = "C06"
LEAN_MODULES = ["PamsProps.C06", "PamsProps.C06R", "PamsProps.SimE2E", "PamsProps.SrcTick", "PamsProps.SrcFill", "PamsProps.SrcRunner", "PamsProps.SrcSimulator", "PamsProps.SrcGetters"]
NAMESPACES = ["Pams.C06", "Pams.C06R", "Pams.C06", "Pams.C06", "Pams.C06", "Pams.C06", "Pams.C06", "Pams.C06"]
DRIVERS = ["Market", "Runner", "Sim", "PyRun"]
TRUSTED = [
    "series are modelled as current slot + list of past slots; Python's pre-allocated slots beyond `time` are unobservable through the getters (refusal is checked on every getter)",
    "fundamental-price history is covered by C12 (prefix kept)",
    "scheduler model: markets/agents/events/draws are oracles (tape recorded from the real run)",
]
ASSUMPTIONS = ["agents/events use the public getters, not the private lists"]


def merge(a, b):
    out = dict(a)
    for k in ("evaluations", "distinct_nontrivial", "traces_validated", "monitor_checks"):
        out[k] = a.get(k, 0) + b.get(k, 0)
    out["violations"] = a["violations"] + b["violations"]
    out["diffs"] = a["diffs"] + b["diffs"]
    out["samples"] = a["samples"][:2] + b["samples"][:2]
    out["rule"] = "(market level) " + a["rule"] + " || (scheduler level) " + b["rule"]
    out["comparisons"] = {"market": a.get("comparisons"), "runner": b.get("comparisons")}
    out["distribution"] = {"market": a.get("distribution"), "runner": b.get("distribution")}
    return out


def run(ctx, model_available=True):
    a = market_checks.run_market_property(ctx, PROP, n_quick=200, model_available=model_available)
    b = runner_props.run_runner_property(ctx, PROP, n_quick=50, model_available=model_available)
    res = merge(a, b)
    # (T2) the translated source of the market operations (clock step, storage growth, …) under the mini-Python
    # semantics, against CPython
    import py_checks
    return py_checks.merge(res, ctx, ["marketop", "runner", "simdispatch", "getters"], n_each=100, model_available=model_available)


def search(ctx, res):
    ctx2 = type(ctx)(ctx.prop, ctx.tier, ctx.seed + 1)
    ctx2.scale = ctx.scale
    a = market_checks.run_market_property(ctx2, PROP, n_quick=800, model_available=False)
    b = runner_props.run_runner_property(ctx2, PROP, n_quick=200, model_available=False)
    res["search_note"] = "extended search: %d histories + %d simulations, no failing input" % (
        a["evaluations"], b["evaluations"])
    return a["violations"] + b["violations"]


def replay(obj):
    if obj["input"]["kind"] == "market-history":
        return market_checks.replay_market(PROP, obj)
    return runner_props.replay_runner(PROP, obj)
