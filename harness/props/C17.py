"""C17 — index markets: theorems in lean/PamsProps/C17.lean over ordered fields, tie = Driver/Pure.lean
`index` (the same fold at Float, compared bit-for-bit) on whole runs with index markets."""
import pure_props

PROP = "C17"
LEAN_MODULES = ["PamsProps.C17", "PamsProps.SrcIndex"]
NAMESPACES = ["Pams.C17", "Pams.C17"]
DRIVERS = ["Pure"]
TRUSTED = [
    "theorems are over ordered fields; the Float instance of the same fold is compared bit-for-bit with get_index, the exact rational average within 1e-12",
    "clock order (index after components) is the scheduler theorem C06R.ticks_components_first, tied by Driver/Runner",
]
ASSUMPTIONS = ["finite positive doubles"]


def run(ctx, model_available=True):
    return pure_props.run_C17(ctx, model_available=model_available)


def search(ctx, res):
    ctx2 = type(ctx)(ctx.prop, "thorough", ctx.seed + 1)
    ctx2.scale = 5
    r = pure_props.run_C17(ctx2, model_available=False)
    res["search_note"] = "extended search: %d further inputs, no failing input" % r["evaluations"]
    return r["violations"]


def replay(obj):
    return pure_props.replay_C17(obj)
