"""C02 — market-level property: theorems in lean/PamsProps/C02.lean, tie = Driver/Market.lean"""
import market_checks
import py_checks

PROP = "C02"
LEAN_MODULES = ["PamsProps.C02", "PamsProps.SrcAccept", "PamsProps.SrcRound21"]
NAMESPACES = ["Pams.C02", "Pams.C02", "Pams.C02"]
DRIVERS = ["Market", "Sim", "PyRun"]
TRUSTED = [
    "modelled, not verified: heapq (abstracted to the sorted list; pop order compared on every state), Order.__eq__-based list.remove, IEEE doubles used only through <,== (monotone integer keys)",
    "generators/abstraction in harness/impl_market.py",
]
ASSUMPTIONS = ["agents do not mutate an order after acceptance", "prices are finite non-NaN doubles"]


def _sims(ctx, n, res):
    """priority inside whole simulations (high-frequency agents, order-rewriting events)"""
    import runner_props
    import runner_checks as rc
    checks = 0
    for cfg, seed in runner_props.gen_priority_cases(ctx, n):
        r = rc.run_sim(cfg, seed)
        vs, c = runner_props.mon_C02_run(r, cfg, seed)
        checks += c
        for v in vs:
            if not any(x["signature"] == v["signature"] for x in res["violations"]):
                res["violations"].append(v)
    res["monitor_checks"] += checks
    res.setdefault("distribution", {})["simulation_priority_checks"] = checks
    return res


def run(ctx, model_available=True):
    res = market_checks.run_market_property(ctx, PROP, model_available=model_available)
    res = py_checks.merge(res, ctx, ["order"], n_each=80, model_available=model_available)
    return _sims(ctx, 12 * (ctx.scale if ctx.tier == "thorough" else 1), res)


def search(ctx, res):
    # extended failing-input search with the model-independent monitor: fresh cases, no Lean
    ctx2 = type(ctx)(ctx.prop, ctx.tier, ctx.seed + 1)
    ctx2.scale = ctx.scale
    r = market_checks.run_market_property(ctx2, PROP, n_quick=3000, model_available=False, sweep_share=0.6)
    r = _sims(ctx2, 150, r)
    res["search_note"] = "extended search: %d further histories and 150 simulations, %d monitor checks, no failing input" % (
        r["evaluations"], r["monitor_checks"])
    return r["violations"]


def replay(obj):
    if obj.get("input", {}).get("kind") == "simulation" or "config" in obj.get("input", {}):
        import runner_props
        return runner_props.replay_runner(PROP, obj, monitor=runner_props.mon_C02_run)
    return market_checks.replay_market(PROP, obj)
