"""C07 — reproducibility (partial): theorems in lean/PamsProps/C07.lean over the regenerated
site inventory lean/PamsGen/AmbientSites.lean (translator harness/extract.py); differential runs
of the real code in fresh interpreters under different hash seeds, perturbed global generators and
after another run in the same process."""
import json
import os
import subprocess
import tempfile
from concurrent.futures import ThreadPoolExecutor

import common
from common import digest
import runner_checks as rc

PROP = "C07"
LEAN_MODULES = ["PamsProps.C07"]
NAMESPACES = ["Pams.C07"]
DRIVERS = []
TRUSTED = [
    "PARTIAL: independence from CPython hash randomisation, global generator state and earlier runs is observed by two-run differential execution, not proved",
    "the AST extractor (harness/extract.py) is trusted to find the ambient-nondeterminism sites it looks for (module-level random / numpy.random calls, set iteration, hash, id, clocks, urandom, unseeded generators)",
    "CPython salts only str/bytes hashes; insertion-ordered dicts",
]
ASSUMPTIONS = ["user-registered classes are themselves deterministic functions of their prng"]

ENVS = [("plain", "0"), ("plain", "1"), ("plain", "4242"), ("perturb:7", "0"), ("perturb:99", "random"), ("prior", "3"),
        ("sibling", "0"), ("same", "5"), ("reuse", "2")]


def sibling_config(cfg, rng):
    """same entities (markets, agents, names, volatilities), other parameters: correlations,
    endowments, event parameters, session flags — what the previous point of a parameter sweep is"""
    import copy
    sib = copy.deepcopy(cfg)
    sim = sib["simulation"]
    k = rng.randint(0, 2)
    if "fundamentalCorrelations" not in sim:
        mk = [m for m in sim["markets"] if m.startswith("M")]
        sim["fundamentalCorrelations"] = {"pairwise": [[mk[0], mk[1], rng.choice([0.9, -0.8])]]}
    elif k == 0:
        sim.pop("fundamentalCorrelations", None)
    else:
        for pr in sim["fundamentalCorrelations"]["pairwise"]:
            pr[2] = -pr[2] if pr[2] else 0.5
    for nm, blk in sib.items():
        if isinstance(blk, dict) and blk.get("class", "").endswith("Agent") or (isinstance(blk, dict) and "numAgents" in blk):
            if "orderMargin" in blk:
                blk["orderMargin"] = [0.0, 0.2]
            if "cashAmount" in blk and isinstance(blk["cashAmount"], (int, float)):
                blk["cashAmount"] = blk["cashAmount"] + 1000
    for nm in ("PLR", "THR"):
        if nm in sib:
            sib[nm]["triggerChangeRate"] = sib[nm]["triggerChangeRate"] * 2
    return sib


def gen_case(rng, i):
    opts = {"n_markets": 5 if i % 6 == 5 else rng.choice([2, 3]), "index": True, "fcn": True, "n_normal": rng.choice([2, 4]),
            "n_hft": rng.choice([1, 2]), "steps": rng.choice([8, 15, 110 if i % 4 == 0 else 12]), "n_sessions": rng.choice([2, 3])}
    cfg = rc.gen_config(rng, opts=opts)
    mk = [m for m in cfg["simulation"]["markets"] if m.startswith("M")]
    for nm in mk:
        cfg[nm]["fundamentalVolatility"] = rng.choice([0.001, 0.01])
        cfg[nm]["outstandingShares"] = 25000
    if i % 6 == 5 and len(mk) >= 5:
        # a consistent but *singular* correlation structure (a composite fully explained by four independent
        # stocks; volatilities exactly representable so that the factorisation fails exactly): such a
        # configuration is refused — identically in every environment
        for nm in mk[:5]:
            cfg[nm]["fundamentalVolatility"] = 2.0 ** -10
        cfg["simulation"]["fundamentalCorrelations"] = {"pairwise": [[mk[k], mk[4], 0.5] for k in range(4)]}
    elif i % 3 != 1:      # one case in three has uncorrelated fundamentals (its sibling run has correlated ones)
        cfg["simulation"]["fundamentalCorrelations"] = {"pairwise": [[mk[0], mk[1], rng.choice([0.3, -0.4, 0.7])]]}
    # built-in agents
    cfg["MMA"] = {"class": "ProbeMarketMakerAgent", "numAgents": 1, "markets": [mk[0]], "assetVolume": 50, "cashAmount": 10000,
                  "targetMarket": mk[0], "netInterestSpread": 0.02, "orderTimeLength": 2}
    cfg["ARB"] = {"class": "ProbeArbitrageAgent", "numAgents": 1, "markets": list(cfg["simulation"]["markets"]), "assetVolume": 50,
                  "cashAmount": 150000, "orderVolume": 1, "orderThresholdPrice": 1.0}
    cfg["MSF"] = {"class": "ProbeMarketShareFCNAgent", "numAgents": 3, "markets": mk, "assetVolume": 50, "cashAmount": 10000,
                  "fundamentalWeight": {"expon": [1.0]}, "chartWeight": {"expon": [0.2]}, "noiseWeight": {"expon": [1.0]},
                  "noiseScale": 0.001, "timeWindowSize": [10, 20], "orderMargin": [0.0, 0.1], "marginType": "normal"}
    cfg["simulation"]["agents"] += ["MMA", "ARB", "MSF"]
    # randomised endowments: every draw an agent makes during setup is part of the outcome
    for nm in ("NA", "HA", "FCN", "MSF"):
        if nm in cfg:
            cfg[nm]["assetVolume"] = rng.choice([[40, 60], {"uniform": [10, 90]}, {"normal": [50, 5]}])
            cfg[nm]["cashAmount"] = rng.choice([{"expon": [10000]}, [9000, 11000]])
    ses = cfg["simulation"]["sessions"]
    for s in ses:
        s["withOrderPlacement"] = True
    ses[-1]["withOrderExecution"] = True
    cfg["FPS"] = {"class": "FundamentalPriceShock", "target": mk[0], "triggerTime": 1, "priceChangeRate": -0.1, "shockTimeLength": 2}
    cfg["OMS"] = {"class": "OrderMistakeShock", "target": mk[1], "triggerTime": 2, "priceChangeRate": -0.05, "orderVolume": 100, "orderTimeLength": 5}
    cfg["PLR"] = {"class": "PriceLimitRule", "targetMarkets": [mk[0]], "triggerChangeRate": 0.05}
    cfg["THR"] = {"class": "TradingHaltRule", "targetMarkets": [mk[1]], "triggerChangeRate": 0.02, "haltingTimeLength": 2}
    ses[-1]["events"] = ["FPS", "OMS", "PLR", "THR"]
    if i % 2 == 1:
        # deprecated spellings of the session keys (valid, they only warn): the caller's settings
        # object must come back untouched, and a second run of the same object must reproduce the first
        for s in ses[: rng.randint(1, len(ses))]:
            for new_key, old_key in (("maxHighFrequencyOrders", "maxHifreqOrders"), ("highFrequencySubmitRate", "hifreqSubmitRate")):
                if new_key in s and rng.random() < 0.8:
                    s[old_key] = s.pop(new_key)
    return cfg


def run_worker(path, mode, hashseed):
    env = dict(os.environ)
    env["PYTHONHASHSEED"] = hashseed
    env["PAMS_VERIF_NOREEXEC"] = "1"
    p = subprocess.run(["/venv/bin/python", os.path.join(common.VERIF, "harness", "c07_worker.py"), path, mode],
                       capture_output=True, text=True, env=env, timeout=600)
    if p.returncode != 0:
        return {"worker_error": p.stderr[-800:]}
    return json.loads(p.stdout.strip().splitlines()[-1])


def run(ctx, model_available=True):
    rng = ctx.rng("C07")
    n = 6 * (3 if ctx.tier == "thorough" else 1)
    violations, diffs, samples = [], [], []
    seen, nontriv = set(), set()
    os.makedirs(os.path.join(common.VERIF, "replays"), exist_ok=True)
    tmp = tempfile.mkdtemp(prefix="c07_", dir=os.path.join(common.VERIF, "replays"))
    jobs = []
    cases = []
    prior = rc.gen_config(rng, opts={"n_markets": 1, "index": False, "n_normal": 2, "n_hft": 0, "fcn": False, "steps": 3, "n_sessions": 1})
    for i in range(n):
        cfg = gen_case(rng, i)
        seed = rng.randint(0, 2 ** 31)
        path = os.path.join(tmp, "case%d.json" % i)
        json.dump({"config": cfg, "seed": seed, "prior_config": prior,
                   "sibling_config": sibling_config(cfg, rng) if i % 3 != 2 else sibling_config(gen_case(rng, i), rng)},
                  open(path, "w"))
        cases.append((cfg, seed, path))
        for mode, hs in ENVS:
            jobs.append((i, mode, hs, path))
    with ThreadPoolExecutor(max_workers=min(common.NCPU, 12)) as ex:
        results = list(ex.map(lambda j: run_worker(j[3], j[1], j[2]), jobs))
    by_case = {}
    for (i, mode, hs, _), r in zip(jobs, results):
        by_case.setdefault(i, []).append(((mode, hs), r))
    checks = 0
    dist = {"runs": len(jobs), "records": 0, "callbacks": 0, "runs_with_error": 0}
    for i, (cfg, seed, path) in enumerate(cases):
        rs = by_case[i]
        h = digest([cfg, seed])
        seen.add(h)
        base_env, base = rs[0]
        if "worker_error" in base:
            violations.append({"signature": "C07/worker-failed", "requires": "runs complete", "observed": base, "monitor": "C07",
                               "input": {"kind": "simulation", "config": cfg, "seed": seed}})
            continue
        dist["records"] += base["n_records"]
        dist["callbacks"] += base["n_callbacks"]
        if base["error"]:
            dist["runs_with_error"] += 1
        if base["n_records"] > 100 and base["n_callbacks"] > 20:
            nontriv.add(h)
        for env, r in rs:
            checks += 1
            if "worker_error" in r:
                violations.append({"signature": "C07/worker-failed", "requires": "runs complete", "observed": r, "monitor": "C07",
                                   "input": {"kind": "simulation", "config": cfg, "seed": seed, "environment": env}})
                continue
            if r.get("settings_modified"):
                v = {"signature": "C07/settings-object-modified", "requires": "running does not modify the caller's settings object",
                     "observed": {"environment": env}, "monitor": "C07", "input": {"kind": "simulation", "config": cfg, "seed": seed}}
                if not any(x["signature"] == v["signature"] for x in violations):
                    violations.append(v)
            for part in ("records", "callbacks", "series", "holdings", "error"):
                if r[part] != base[part]:
                    v = {"signature": "C07/outcome-depends-on-environment:" + part,
                         "requires": "the whole observable outcome is a function of configuration and seed only (not of the hash seed, global generator state, or earlier runs)",
                         "observed": {"differs_in": part, "environment_a": base_env, "environment_b": env},
                         "monitor": "C07", "input": {"kind": "simulation", "config": cfg, "seed": seed, "environments": [base_env, env],
                                                     "sibling_config": json.load(open(path)).get("sibling_config")}}
                    if not any(x["signature"] == v["signature"] for x in violations):
                        violations.append(v)
        if len(samples) < 1:
            samples.append({"markets": cfg["simulation"]["markets"], "agents": cfg["simulation"]["agents"], "seed": seed,
                            "environments": [e for e, _ in rs], "digest": {k: base[k] for k in ("records", "series", "holdings")}})
    for f in os.listdir(tmp):
        os.remove(os.path.join(tmp, f))
    os.rmdir(tmp)
    return {"evaluations": len(seen), "distinct_nontrivial": len(nontriv),
            "rule": "configurations with all built-in agent types (FCN, MarketShareFCN normal margin, MarketMaker, Arbitrage), an index market, correlated fundamentals and all four built-in events; each run in fresh interpreters under PYTHONHASHSEED 0/1/4242/random, with perturbed global random / numpy.random state, after a different run in the same process, after a run of a sibling configuration (same entities, other parameters) and after a run of the same configuration with another seed; non-trivial = run with > 100 logger records and > 20 notifications",
            "samples": samples, "violations": violations, "diffs": diffs,
            "comparisons": {"environment_pairs_compared": checks}, "traces_validated": len(cases),
            "distribution": dist, "monitor_checks": checks}


def search(ctx, res):
    ctx2 = type(ctx)(ctx.prop, "thorough", ctx.seed + 1)
    ctx2.scale = 1
    r = run(ctx2, model_available=False)
    res["search_note"] = "extended differential search: %d further configurations x %d environments, digests identical" % (r["evaluations"], len(ENVS))
    return r["violations"]


def replay(obj):
    inp = obj["input"]
    d = os.path.join(common.VERIF, "replays")
    path = os.path.join(d, "_c07_replay_case.json")
    json.dump({"config": inp["config"], "seed": inp["seed"], "prior_config": inp["config"],
               "sibling_config": inp.get("sibling_config", inp["config"])}, open(path, "w"))
    rs = [run_worker(path, m, h) for m, h in ENVS]
    os.remove(path)
    bad = [i for i, r in enumerate(rs) if any(r.get(k) != rs[0].get(k) for k in ("records", "callbacks", "series", "holdings"))]
    return {"violations": [{"signature": obj["signature"], "observed": {"differing_environments": [ENVS[i] for i in bad]}}] if bad else []}
