"""C05 — runner-level property: theorems in lean/PamsProps/C05.lean, tie = Driver/Runner.lean"""
import runner_props

PROP = "C05"
LEAN_MODULES = ["PamsProps.C05", "PamsProps.SimE2E", "PamsProps.SimE2E", "PamsProps.SrcLedger", "PamsProps.SrcRunner", "PamsProps.SrcEndow"]
NAMESPACES = ["Pams.C05", "Pams.C05", "Pams.SimDemo", "Pams.C05", "Pams.C05", "Pams.C05"]
DRIVERS = ["Runner", "Pure", "Sim", "PyRun"]
TRUSTED = [
    "scheduler model treats markets, agents, user events and random draws as oracles (tape recorded from the real run through public extension points: simulator_class, registered agent/market/event classes, prng subclass, Logger subclass)",
    "user-written agents/events are assumed not to reach into private state of sessions/markets (the built-in TradingHaltRule, which does, is modelled: its flag switches are part of the tape)",
    "generators/recorders in harness/impl_runner.py, harness/runner_checks.py",
]
ASSUMPTIONS = ["CPython semantics of list iteration / exceptions", "recording subclasses do not change behaviour (prng stream verified identical)"]


def run(ctx, model_available=True):
    """scheduler trace (ledger once per round, before the callbacks) + the ledger arithmetic itself:
    the Lean fold `Ledger.applyFills` at Float over the reported fills must reproduce every agent's
    final cash bit for bit and every share position exactly"""
    from common import LeanDriver, bits2f, fbits
    lines, expects = [], []

    def per_run(run, cfg, seed):
        if run.sim is None or not hasattr(run, "initial"):
            return
        agents = run.sim.agents
        mk = [m.market_id for m in run.sim.markets]
        if [a.agent_id for a in agents] != list(range(len(agents))) or mk != list(range(len(mk))):
            return
        fills = []
        for ev in run.rec.log:
            if ev[0] == "ledger":
                fills += ev[2]
        t = ["ledger", str(len(agents)), str(len(mk))]
        for a in agents:
            c, sh = run.initial[a.agent_id]
            t.append(fbits(c))
            t += [str(sh.get(m, 0)) for m in mk]
        t.append(str(len(fills)))
        for l in fills:
            t += [str(l.buy_agent_id), str(l.sell_agent_id), str(l.market_id), fbits(l.price), str(l.volume)]
        lines.append(" ".join(t))
        expects.append(([(a.cash_amount, [a.asset_volumes.get(m, 0) for m in mk]) for a in agents], {"config": cfg, "seed": seed, "fills": len(fills)}))
    res = runner_props.run_runner_property(ctx, PROP, model_available=model_available, per_run=per_run)
    if model_available and lines:
        out, err, dt = LeanDriver("Pure").run(lines)
        if out is None:
            res["diffs"].append({"channel": "driver", "detail": err[-1500:]})
        else:
            n = 0
            for o, (exp, inp) in zip(out, expects):
                t = o.split()[1:]
                per = 1 + len(exp[0][1])
                model = [(bits2f(t[i * per]), [int(x) for x in t[i * per + 1:(i + 1) * per]]) for i in range(len(exp))]
                n += 1
                if model != exp:
                    bad = [i for i, (a, b) in enumerate(zip(model, exp)) if a != b]
                    res["diffs"].append({"channel": "ledger.fold", "agents_differing": bad[:5], "model": [model[i] for i in bad[:3]],
                                         "impl": [exp[i] for i in bad[:3]], "input": inp})
            res["comparisons"]["ledger_folds_compared_bitwise"] = n
    import py_checks
    return py_checks.merge(res, ctx, ["ledger", "runner"], n_each=60, model_available=model_available)


def search(ctx, res):
    ctx2 = type(ctx)(ctx.prop, ctx.tier, ctx.seed + 1)
    ctx2.scale = ctx.scale
    r = runner_props.run_runner_property(ctx2, PROP, n_quick=250, model_available=False)
    res["search_note"] = "extended search: %d further simulations, %d monitor checks, no failing input" % (
        r["evaluations"], r["monitor_checks"])
    return r["violations"]


def replay(obj):
    return runner_props.replay_runner(PROP, obj)
