"""C01 — market-level property: theorems in lean/PamsProps/C01.lean, tie = Driver/Market.lean"""
import market_checks
import py_checks

PROP = "C01"
LEAN_MODULES = ["PamsProps.C01", "PamsProps.SimE2E", "PamsProps.SrcRound", "PamsProps.SrcRound21"]
NAMESPACES = ["Pams.C01", "Pams.C01", "Pams.C01", "Pams.C01"]      # second: the end-to-end theorems of PamsProps/SimE2E.lean in the same namespace
DRIVERS = ["Market", "Sim", "PyRun"]
TRUSTED = [
    "modelled, not verified: heapq (abstracted to the sorted list; pop order compared on every state), Order.__eq__-based list.remove, IEEE doubles used only through <,== (monotone integer keys)",
    "generators/abstraction in harness/impl_market.py",
]
ASSUMPTIONS = ["agents do not mutate an order after acceptance", "prices are finite non-NaN doubles"]


def run(ctx, model_available=True):
    res = market_checks.run_market_property(ctx, PROP, model_available=model_available)
    # (T2) the translated source of the market operations under the mini-Python semantics, against CPython
    return py_checks.merge(res, ctx, ["marketop"], n_each=120, model_available=model_available)


def search(ctx, res):
    # extended failing-input search with the model-independent monitor: fresh cases, no Lean
    ctx2 = type(ctx)(ctx.prop, ctx.tier, ctx.seed + 1)
    ctx2.scale = ctx.scale
    r = market_checks.run_market_property(ctx2, PROP, n_quick=3000, model_available=False, sweep_share=0.6)
    res["search_note"] = "extended search: %d further histories, %d monitor checks, no failing input" % (
        r["evaluations"], r["monitor_checks"])
    return r["violations"]


def replay(obj):
    return market_checks.replay_market(PROP, obj)
