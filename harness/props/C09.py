"""C09 — runner-level property: theorems in lean/PamsProps/C09.lean, tie = Driver/Runner.lean"""
import runner_props

PROP = "C09"
LEAN_MODULES = ["PamsProps.C09", "PamsProps.SimE2E", "PamsProps.SrcSession", "PamsProps.SrcRunner"]
NAMESPACES = ["Pams.C09", "Pams.C09", "Pams.C09", "Pams.C09"]
DRIVERS = ["Runner", "Sim", "PyRun"]
TRUSTED = [
    "scheduler model treats markets, agents, user events and random draws as oracles (tape recorded from the real run through public extension points: simulator_class, registered agent/market/event classes, prng subclass, Logger subclass)",
    "user-written agents/events are assumed not to reach into private state of sessions/markets (the built-in TradingHaltRule, which does, is modelled: its flag switches are part of the tape)",
    "generators/recorders in harness/impl_runner.py, harness/runner_checks.py",
]
ASSUMPTIONS = ["CPython semantics of list iteration / exceptions", "recording subclasses do not change behaviour (prng stream verified identical)"]


def run(ctx, model_available=True):
    res = runner_props.run_runner_property(ctx, PROP, model_available=model_available)
    # (T2) the translated source of Session.setup under the mini-Python semantics, against CPython
    import py_checks
    return py_checks.merge(res, ctx, ["session", "runner"], n_each=150, model_available=model_available)


def search(ctx, res):
    ctx2 = type(ctx)(ctx.prop, ctx.tier, ctx.seed + 1)
    ctx2.scale = ctx.scale
    r = runner_props.run_runner_property(ctx2, PROP, n_quick=250, model_available=False)
    res["search_note"] = "extended search: %d further simulations, %d monitor checks, no failing input" % (
        r["evaluations"], r["monitor_checks"])
    return r["violations"]


def replay(obj):
    return runner_props.replay_runner(PROP, obj)
