"""C18 — configuration expansion: theorems in lean/PamsProps/C18.lean (model PamsModel/Config.lean),
tie = Driver/Config.lean against json_extends, the runner's setup, JsonRandom, find_class and
Session.setup."""
import config_props

PROP = "C18"
LEAN_MODULES = ["PamsProps.C18", "PamsProps.SrcSession", "PamsProps.SrcConfig"]
NAMESPACES = ["Pams.C18", "Pams.C18", "Pams.C18"]
DRIVERS = ["Config", "PyRun"]
TRUSTED = [
    "keys, names and values are opaque codes; Python dict insertion order and str(int) injectivity (entity names) are modelled, not verified",
    "expon support theorem is over the reals (Mathlib Real.log); the uniform theorem over ordered fields, its Float instance compared bit-for-bit",
    "find_class namespace scan is modelled as two candidate lists (built-ins, registered)",
]
ASSUMPTIONS = ["configuration values are JSON values"]


def run(ctx, model_available=True):
    res = config_props.run_C18(ctx, model_available=model_available)
    # (T2) the translated source of Session.setup under the mini-Python semantics, against CPython
    import py_checks
    return py_checks.merge(res, ctx, ["session", "config", "jsonrandom", "registry"], n_each=150, model_available=model_available)


def search(ctx, res):
    ctx2 = type(ctx)(ctx.prop, "thorough", ctx.seed + 1)
    ctx2.scale = 4
    r = config_props.run_C18(ctx2, model_available=False)
    res["search_note"] = "extended search: %d further cases, no failing input" % r["evaluations"]
    return r["violations"]


def replay(obj):
    return config_props.replay_C18(obj)
