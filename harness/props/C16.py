"""C16 — built-in events: theorems in lean/PamsProps/C16.lean (models PamsModel/Events.lean,
Hooks.lean), tie = Driver/Events.lean at Float (unit level) + Driver/Runner.lean (whole runs)."""
import events_props
import py_checks
import runner_props

PROP = "C16"
LEAN_MODULES = ["PamsProps.C16", "PamsProps.SimE2E", "PamsProps.SrcRunner", "PamsProps.SrcHookReg"]
NAMESPACES = ["Pams.C16", "Pams.C16", "Pams.C16", "Pams.C16"]
DRIVERS = ["Events", "Runner", "Sim", "PyRun"]
TRUSTED = [
    "arithmetic theorems are over ordered fields; the same Lean definitions are evaluated at Float and compared with Python bit-for-bit (tolerance 1e-12 only where noted)",
    "event objects are driven through their public handlers; whole runs are observed through the instrumented simulator",
]
ASSUMPTIONS = ["finite non-NaN doubles", "one rule instance per configuration in the generated runs"]


def run(ctx, model_available=True):
    n = 60
    res = runner_props.run_runner_property(
        ctx, PROP, n_quick=n, model_available=model_available,
        gen=lambda: events_props.GENS[PROP](ctx, n * (ctx.scale if ctx.tier == "thorough" else 1)),
        monitor=events_props.MONITORS[PROP], alphabet="sched",
        nontrivial_fn=events_props.nontrivial, rule=events_props.RULES[PROP])
    if model_available:
        compared, diffs = events_props.run_units(PROP, ctx, 300 * (ctx.scale if ctx.tier == "thorough" else 1))
        res["diffs"] = res["diffs"] + diffs[:30]
        res["comparisons"]["unit_comparisons"] = compared
    # (T2) the translated source of the event handlers under the mini-Python semantics, against CPython
    return py_checks.merge(res, ctx, ["event", "runner", "eventsetup"], n_each=90, model_available=model_available)


def search(ctx, res):
    ctx2 = type(ctx)(ctx.prop, ctx.tier, ctx.seed + 1)
    ctx2.scale = ctx.scale
    n = 300
    r = runner_props.run_runner_property(
        ctx2, PROP, n_quick=n, model_available=False,
        gen=lambda: events_props.GENS[PROP](ctx2, n), monitor=events_props.MONITORS[PROP],
        nontrivial_fn=events_props.nontrivial, rule=events_props.RULES[PROP])
    res["search_note"] = "extended search: %d further simulations, no failing input" % r["evaluations"]
    return r["violations"]


def replay(obj):
    return runner_props.replay_runner(PROP, obj, monitor=events_props.MONITORS[PROP])
