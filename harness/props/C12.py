"""C12 — fundamentals: theorems in lean/PamsProps/C12.lean over the reals (model
PamsModel/Fundamentals.lean), tie = Driver/Pure.lean `genpath` (Float instance) against the chunks
recorded from the real Fundamentals object; partial (see level note)."""
import fund_props

PROP = "C12"
LEAN_MODULES = ["PamsProps.C12", "PamsProps.C12S", "PamsProps.SrcFund"]
NAMESPACES = ["Pams.C12", "Pams.C12", "Pams.C12"]
DRIVERS = ["Pure"]
TRUSTED = [
    "PARTIAL: that numpy.random.Generator.standard_normal yields independent standard normals and that scipy.linalg.cholesky returns L with L L^T = cov are assumed (the latter is checked numerically on every generated input); proved is the algebra turning them into drift / volatility / correlation and every path fact",
    "theorems over the reals; numpy cumsum/exp vs the Lean Float instance compared within 1e-12 relative",
]
ASSUMPTIONS = ["admissible parameters: initial > 0, volatility >= 0, correlation matrix positive definite"]


def run(ctx, model_available=True):
    return fund_props.run_C12(ctx, model_available=model_available)


def search(ctx, res):
    ctx2 = type(ctx)(ctx.prop, "thorough", ctx.seed + 1)
    ctx2.scale = 4
    r = fund_props.run_C12(ctx2, model_available=False)
    res["search_note"] = "extended search: %d further agent states, no failing input" % r["evaluations"]
    return r["violations"]


def replay(obj):
    return fund_props.replay_C12(obj)
