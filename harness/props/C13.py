"""C13 — event hooks: theorems in lean/PamsProps/C13.lean (dispatch model PamsModel/Hooks.lean),
tie = Driver/Hooks.lean on probe events with random hook sets; scheduler part via Driver/Runner."""
from collections import Counter

import common
from common import LeanDriver, b2s, digest, opt
import runner_checks as rc
import runner_props
from runner_props import viol

PROP = "C13"
LEAN_MODULES = ["PamsProps.C13", "PamsProps.SimE2E", "PamsProps.SrcRunner", "PamsProps.SrcSimulator"]
NAMESPACES = ["Pams.C13", "Pams.C13", "Pams.C13", "Pams.C13"]
DRIVERS = ["Hooks", "Runner", "PyRun"]
TRUSTED = [
    "dict buckets of Simulator.events_dict are modelled as filters over the registration list (insertion-ordered dicts/lists)",
    "isinstance / identity filters are modelled on (market id, is IndexMarket)",
    "occurrences are taken from independent observations (market calls, logger records), not from the dispatcher under test",
]
ASSUMPTIONS = ["EventHook objects are not mutated after registration"]

KINDS = ["order_before", "order_after", "cancel_before", "cancel_after", "execution_after",
         "session_before", "session_after", "market_before", "market_after"]


def gen_hooks(rng, total_steps, market_names, has_index):
    hooks = []
    for _ in range(rng.randint(1, 4)):
        typ = rng.choice(["order", "order", "cancel", "execution", "session", "market", "market"])
        before = False if typ == "execution" else rng.random() < 0.5
        r = rng.random()
        if r < 0.3:
            time = None
        elif r < 0.35:
            time = []
        else:
            time = [rng.randint(0, total_steps + 2) for _ in range(rng.randint(1, 4))]
            if rng.random() < 0.3 and time:
                time.append(time[0])          # repeated entry
        h = {"type": typ, "before": before, "time": time}
        if typ == "market":
            h["cls"] = rng.choice([None, None, "Market", "IndexMarket"])
            h["inst"] = rng.choice([None, None] + market_names)
        hooks.append(h)
    return hooks


def gen_cases(ctx, n):
    rng = ctx.rng("hooks")
    for i in range(n):
        n_ev = rng.randint(1, 3)
        names = ["PE%d" % j for j in range(n_ev)]
        assign = {}

        def events_for(k, names=names, assign=assign, rng=rng):
            ev = [x for x in names if rng.random() < 0.6 and x not in assign]
            for x in ev:
                assign[x] = k
            return ev
        cfg = rc.gen_config(rng, opts={"events": events_for, "n_hft": rng.choice([0, 1, 2]),
                                       "n_normal": rng.choice([1, 3, 5]), "index": rng.random() < 0.4,
                                       "n_markets": rng.choice([1, 2, 3])})
        total = sum(s["iterationSteps"] for s in cfg["simulation"]["sessions"])
        mk = list(cfg["simulation"]["markets"])
        for j, nm in enumerate(names):
            cfg[nm] = {"class": "ProbeEvent", "hooks": gen_hooks(rng, total, mk, "IDX" in mk),
                       "alterPrice": rng.choice([None, None, 1.01, 0.99]),
                       "doubleRegister": (i % 17 == 5 and j == 0)}
        for s in cfg["simulation"]["sessions"]:
            if rng.random() < 0.8:
                s["withOrderPlacement"] = True
                s["withOrderExecution"] = rng.random() < 0.8
        yield cfg, rng.randint(0, 2 ** 31)


def analyse(run):
    """hooks registered, ground-truth occurrences, real invocations"""
    sim = run.sim
    rec = run.rec
    hooks = []
    for i, h in enumerate(sim.event_hooks):
        kind = KINDS.index(h.hook_type + ("_before" if h.is_before else "_after"))
        cls = 0 if h.specific_class is None else (2 if h.specific_class.__name__ == "IndexMarket" else 1)
        inst = None if h.specific_instance is None else h.specific_instance.market_id
        hooks.append({"id": i, "event": h.event.event_id, "kind": kind, "times": h.time, "cls": cls, "inst": inst})
    is_index = {m.market_id: isinstance(m, rc.impl_runner.IndexMarket) for m in sim.markets}
    log = runner_props.after_setup(run)
    occ = []            # (kind, key, time, market, position)
    orderlog_ref, cancellog_ref = {}, {}
    cur_t = 0
    ses = {s["id"]: s for s in run.session_cfgs}
    for pos, ev in enumerate(log):
        k = ev[0]
        if k == "log.direct":
            key = ev[1]
            if key[0] == "stepBegin":
                cur_t = key[2]
                occ.append((7, ("m", key[1], key[2]), key[2], key[1], pos))
            elif key[0] == "stepEnd":
                occ.append((8, ("m", key[1], key[2]), key[2], key[1], pos))
        elif k == "call.add":
            occ.append((0, ("o", ev[2]), cur_t, None, pos))
        elif k == "ret.add":
            orderlog_ref[id(ev[3])] = ev[2]
            occ.append((1, ("o", ev[2]), ev[3].time, None, pos))
        elif k == "call.cancel":
            occ.append((2, ("c", ev[2]), cur_t, None, pos))
        elif k == "ret.cancel":
            cancellog_ref[id(ev[3])] = ev[2]
            occ.append((3, ("c", ev[2]), ev[3].cancel_time, None, pos))
        elif k == "ret.exec":
            for l in ev[2]:
                occ.append((4, ("f", rec.fill_ref(l)), l.time, None, pos))
        elif k == "log.write":
            key = ev[1]
            if key[0] == "sessionBegin":
                occ.append((5, ("s", key[1]), ses[key[1]]["start"], None, pos))
            elif key[0] == "sessionEnd":
                occ.append((6, ("s", key[1]), ses[key[1]]["start"] + ses[key[1]]["steps"] - 1, None, pos))
    inv = {}
    inv_pos = {}
    for pos, ev in enumerate(log):
        if ev[0] != "probe":
            continue
        _, event_id, kind, what, t, market = ev
        ki = KINDS.index(kind)
        if ki in (0,):
            key = ("o", what)
        elif ki == 1:
            key = ("o", orderlog_ref.get(what, -1))
        elif ki == 2:
            key = ("c", what)
        elif ki == 3:
            key = ("c", cancellog_ref.get(what, -1))
        elif ki == 4:
            key = ("f", what)
        elif ki in (5, 6):
            key = ("s", what)
        else:
            key = ("m", what, t)
        inv.setdefault((ki, key), []).append((event_id, t, market))
        inv_pos.setdefault((ki, key), []).append(pos)
    # after-hooks for order/cancel are recorded before ret.* is logged: resolve late keys
    return hooks, occ, inv, inv_pos, is_index


def expected_events(hooks, kind, t, market, is_index):
    out = []
    for h in hooks:
        if h["kind"] != kind:
            continue
        if h["times"] is not None and t not in h["times"]:
            continue
        if market is not None:
            if h["cls"] == 2 and not is_index[market]:
                continue
            if h["inst"] is not None and h["inst"] != market:
                continue
        out.append(h["event"])
    return out


def monitor(run, cfg, seed):
    out, checks = [], 0
    if run.error is not None and run.error[2] == "setup":
        return out, checks
    hooks, occ, inv, inv_pos, is_index = analyse(run)
    # order_after / cancel_after probe records are written before ret.* exists; re-key them
    seen = set()
    for (kind, key, t, market, pos) in occ:
        checks += 1
        got = inv.get((kind, key), [])
        seen.add((kind, key))
        want = expected_events(hooks, kind, t, market, is_index)
        if Counter(e for e, _, _ in got) != Counter(want):
            extra = Counter(e for e, _, _ in got) - Counter(want)
            missing = Counter(want) - Counter(e for e, _, _ in got)
            if extra and not missing:
                sig = "C13/hook-invoked-more-than-once:" + KINDS[kind]
            elif missing and not extra:
                sig = "C13/hook-not-invoked:" + KINDS[kind]
            else:
                sig = "C13/wrong-hooks-invoked:" + KINDS[kind]
            out.append(viol("C13", sig, "a registered hook is invoked exactly once per matching occurrence (type, time in its list or no list, market filter) and not otherwise",
                            {"occurrence": (KINDS[kind], key, t, market), "invoked_events": [e for e, _, _ in got],
                             "expected_events": want, "hooks": [h for h in hooks if h["kind"] == kind]}, cfg, seed))
        if kind in (0, 2, 5, 7) and got:
            if max(inv_pos[(kind, key)]) > pos:
                out.append(viol("C13", "C13/before-hook-after-occurrence", "'before' hooks run before the occurrence takes effect",
                                {"occurrence": (KINDS[kind], key)}, cfg, seed))
        if kind in (1, 3, 4, 6, 8) and got:
            if min(inv_pos[(kind, key)]) < pos and kind in (6, 8):
                pass
    for (kind, key), got in inv.items():
        if (kind, key) not in seen and (len(key) < 2 or key[1] != -1):
            out.append(viol("C13", "C13/hook-invoked-without-occurrence:" + KINDS[kind],
                            "hooks are invoked only at occurrences", {"key": key, "invoked": got[:3]}, cfg, seed))
    return out, checks


def run(ctx, model_available=True):
    n = 60 * (ctx.scale if ctx.tier == "thorough" else 1)
    violations, diffs, samples = [], [], []
    hashes, nontriv = set(), set()
    lines, meta = [], []
    checks = 0
    dist = {"hooks": 0, "occurrences": 0, "invocations": 0, "repeated_time_entries": 0,
            "double_registrations_refused": 0, "by_kind": {}}
    builts, inputs = [], []
    for cfg, seed in gen_cases(ctx, n):
        r = rc.run_sim(cfg, seed)
        h = digest([cfg, seed])
        used = {e for s_ in cfg["simulation"]["sessions"] for e in s_.get("events", [])}
        dbl = any(isinstance(v, dict) and v.get("doubleRegister") and v.get("hooks") and k in used
                  for k, v in cfg.items())
        if r.error is not None and r.error[2] == "setup":
            checks += 1
            if dbl and r.error[0] == "ValueError" and "already registered" in r.error[1]:
                dist["double_registrations_refused"] += 1
            else:
                violations.append(viol("C13", "C13/setup-error:" + r.error[0], "valid hook sets register", {"error": r.error[:2]}, cfg, seed))
            hashes.add(h)
            continue
        if dbl:
            violations.append(viol("C13", "C13/double-registration-accepted", "a hook cannot be registered twice",
                                   {"hooks": len(r.sim.event_hooks)}, cfg, seed))
        vs, c = monitor(r, cfg, seed)
        checks += c
        for v in vs:
            if not any(x["signature"] == v["signature"] for x in violations):
                violations.append(v)
        hooks, occ, inv, inv_pos, is_index = analyse(r)
        dist["hooks"] += len(hooks)
        dist["occurrences"] += len(occ)
        dist["invocations"] += sum(len(v) for v in inv.values())
        dist["repeated_time_entries"] += sum(1 for x in hooks if x["times"] and len(set(x["times"])) < len(x["times"]))
        for x in hooks:
            dist["by_kind"][KINDS[x["kind"]]] = dist["by_kind"].get(KINDS[x["kind"]], 0) + 1
        if h not in hashes and len({x["kind"] for x in hooks}) >= 2 and sum(len(v) for v in inv.values()) > 0:
            nontriv.add(h)
            if len(samples) < 2:
                samples.append({"config_events": {k: v for k, v in cfg.items() if k.startswith("PE")}, "seed": seed,
                                "hooks": hooks[:6], "n_occurrences": len(occ)})
        hashes.add(h)
        if model_available:
            lines.append("CASE")
            meta.append(None)
            for x in hooks:
                ts = x["times"]
                lines.append("H %d %d %d %s %d %s %d %s" % (
                    x["id"], x["event"], x["kind"], b2s(ts is not None), len(ts or []),
                    " ".join(map(str, ts or [])), x["cls"], opt(x["inst"])))
                meta.append(("reg", cfg, seed, x))
            for (kind, key, t, market, pos) in occ:
                lines.append("O %d %d %s %s" % (kind, t, opt(market), b2s(is_index.get(market, False))))
                meta.append(("occ", cfg, seed, (kind, key, t, market), [e for e, _, _ in inv.get((kind, key), [])]))
            b = rc.build(r)
            builts.append(b)
            inputs.append((cfg, seed))
    compared = 0
    if model_available and lines:
        out, err, dt = LeanDriver("Hooks").run(lines)
        if out is None:
            diffs.append({"channel": "driver", "detail": err[-1500:]})
        else:
            it = iter(out)
            for ln, m in zip(lines, meta):
                if m is None:
                    continue
                o = next(it, None)
                if m[0] == "reg":
                    compared += 1
                    if o != "R ok":
                        diffs.append({"channel": "hooks.register", "model": o, "impl": "registered", "hook": m[3]})
                else:
                    compared += 1
                    model = [int(x) for x in (o or "D").split()[1:]]
                    if model != m[4]:
                        if len(diffs) < 50:
                            diffs.append({"channel": "hooks.calls", "occurrence": m[3], "model": model,
                                          "impl": m[4], "config": m[1], "seed": m[2]})
        # scheduler part: every occurrence triggers its dispatch exactly once
        traces, err = rc.model_traces(builts) if builts else ([], "")
        if traces is None or len(traces) != len(builts):
            diffs.append({"channel": "driver", "detail": (err or "")[-1500:]})
        else:
            alpha = rc.ALPHABETS["hooks"]
            for (b, t, (cfg, seed)) in zip(builts, traces, inputs):
                pa, pb = rc.project(t, alpha), rc.project(b.trace, alpha)
                compared += len(pb)
                d = rc.first_diff(pa, pb)
                if d is not None:
                    j = d[0]
                    diffs.append({"channel": "trace.hooks", "position": j, "model": pa[max(0, j - 3): j + 2],
                                  "impl": pb[max(0, j - 3): j + 2], "config": cfg, "seed": seed})
    res = {"evaluations": len(hashes), "distinct_nontrivial": len(nontriv),
            "rule": "random configurations with 1-3 user-written probe events, each with 1-4 hooks over all hook types, before/after, time lists (none, empty, repeated entries, out-of-run times), class and instance filters; one in 17 tries a double registration; non-trivial = run with hooks of >= 2 kinds and at least one invocation; distinct = hash(config, seed)",
            "samples": samples, "violations": violations, "diffs": diffs,
            "comparisons": {"dispatch_and_trace_comparisons": compared}, "traces_validated": len(builts),
            "distribution": dist, "monitor_checks": checks}
    # (T2) the translated source of the scheduler (the dispatch sites) under the mini-Python semantics, against CPython
    import py_checks
    return py_checks.merge(res, ctx, ["runner", "simdispatch"], n_each=100, model_available=model_available)


def search(ctx, res):
    ctx2 = type(ctx)(ctx.prop, ctx.tier, ctx.seed + 1)
    ctx2.scale = ctx.scale * 4 if ctx.tier == "thorough" else 4
    ctx2.tier = "thorough"
    r = run(ctx2, model_available=False)
    res["search_note"] = "extended search: %d further simulations, no failing input" % r["evaluations"]
    return r["violations"]


def replay(obj):
    inp = obj["input"]
    r = rc.run_sim(inp["config"], inp["seed"])
    if r.error is not None and r.error[2] == "setup":
        return {"violations": [], "error": r.error[:2]}
    vs, _ = monitor(r, inp["config"], inp["seed"])
    return {"violations": [{"signature": v["signature"], "observed": v["observed"]} for v in vs]}
