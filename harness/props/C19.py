"""C19 — tick snapping: theorems in lean/PamsProps/C19.lean over exact rationals, tie =
Driver/Pure.lean `snap` (exact arithmetic on the bit patterns) vs the real Market._add_order."""
import pure_props

PROP = "C19"
LEAN_MODULES = ["PamsProps.C19", "PamsProps.SrcAccept"]
NAMESPACES = ["Pams.C19", "Pams.C19"]
DRIVERS = ["Pure", "PyRun"]
TRUSTED = [
    "theorems are over exact rationals; Python evaluates floor(price/tick)*tick in IEEE doubles: equal to the model exactly on the exact family, and up to the float representation of the grid otherwise (measured gap reported in evidence)",
    "Python's float % is exact (fmod), so the on-grid test is compared exactly",
]
ASSUMPTIONS = ["finite positive doubles"]


def run(ctx, model_available=True):
    import py_checks
    res = pure_props.run_C19(ctx, model_available=model_available)
    # whole simulations: orders whose price a before-order hook rewrote (price limit rule, order-mistake shock)
    import events_props
    sims = events_props.run_C19_sims(ctx)
    res["violations"] = res["violations"] + sims["violations"]
    res["monitor_checks"] = res.get("monitor_checks", 0) + sims["monitor_checks"]
    res["evaluations"] = res.get("evaluations", 0) + sims["evaluations"]
    res.setdefault("distribution", {})["simulations"] = {k: sims[k] for k in ("evaluations", "monitor_checks", "orders_off_grid_after_hooks")}
    return py_checks.merge(res, ctx, ["market"], n_each=80, model_available=model_available)


def search(ctx, res):
    ctx2 = type(ctx)(ctx.prop, "thorough", ctx.seed + 1)
    ctx2.scale = 10
    r = pure_props.run_C19(ctx2, model_available=False)
    import events_props
    sims = events_props.run_C19_sims(ctx2, n=40)
    res["search_note"] = "extended search: %d further inputs, %d simulations, no failing input" % (r["evaluations"], sims["evaluations"])
    return r["violations"] + sims["violations"]


def replay(obj):
    if isinstance(obj.get("input"), dict) and obj["input"].get("kind") == "simulation":
        import events_props
        return events_props.replay_C19_sim(obj)
    return pure_props.replay_C19(obj)
