"""C20 — built-in agents: theorems in lean/PamsProps/C20.lean over the reals (model
PamsModel/Agents.lean), tie = Driver/Pure.lean (Float instance of the same formulas) against real
agent objects on real markets."""
import agents_props

PROP = "C20"
LEAN_MODULES = ["PamsProps.C20", "PamsProps.SrcAgents"]
NAMESPACES = ["Pams.C20", "Pams.C20"]
DRIVERS = ["Pure"]
TRUSTED = [
    "theorems over the reals (Mathlib Real.exp / Real.log); the Float instance of the same definitions is compared with Python (decisions exactly away from ties, prices within 1e-12 relative: libm exp/log)",
    "random.Random.gauss / choices are inputs (recorded)",
    "admissible parameters: window >= 1, non-negative weights not all zero, components accessible to the arbitrage agent, equal outstanding shares",
]
ASSUMPTIONS = ["market prices and fundamental prices are positive finite doubles"]


def run(ctx, model_available=True):
    return agents_props.run_C20(ctx, model_available=model_available)


def search(ctx, res):
    ctx2 = type(ctx)(ctx.prop, "thorough", ctx.seed + 1)
    ctx2.scale = 4
    r = agents_props.run_C20(ctx2, model_available=False)
    res["search_note"] = "extended search: %d further agent states, no failing input" % r["evaluations"]
    return r["violations"]


def replay(obj):
    return agents_props.replay_C20(obj)
