"""C10 — market-level (history never changes, future refused; PamsProps.C10.lean, Driver/Market)
and scheduler-level (lock-step clock, session spans; PamsProps/C10X.lean, Driver/Runner)."""
import market_checks
import runner_props

PROP = "C10"
LEAN_MODULES = ["PamsProps.C10", "PamsProps.SimE2E", "PamsProps.SrcRunner", "PamsProps.SrcLogger"]
NAMESPACES = ["Pams.C10", "Pams.C10", "Pams.C10", "Pams.C10"]
DRIVERS = ["Market", "Runner", "Pure", "Sim", "PyRun"]
TRUSTED = [
    "Logger.process dispatch by isinstance is observed, not modelled: a recording Logger subclass overrides write/bulk_write/write_and_direct_process/_process/process_* and delegates",
    "scheduler model: markets/agents/events/draws are oracles (tape recorded from the real run)",
]
ASSUMPTIONS = ["user loggers do not reorder their own pending list"]


def merge(a, b):
    out = dict(a)
    for k in ("evaluations", "distinct_nontrivial", "traces_validated", "monitor_checks"):
        out[k] = a.get(k, 0) + b.get(k, 0)
    out["violations"] = a["violations"] + b["violations"]
    out["diffs"] = a["diffs"] + b["diffs"]
    out["samples"] = a["samples"][:2] + b["samples"][:2]
    out["rule"] = "(market level) " + a["rule"] + " || (scheduler level) " + b["rule"]
    out["comparisons"] = {"market": a.get("comparisons"), "runner": b.get("comparisons")}
    out["distribution"] = {"market": a.get("distribution"), "runner": b.get("distribution")}
    return out


def logger_units(ctx, n):
    """random write / bulk_write / direct / flush sequences on a real Logger vs the Lean queue model"""
    from common import LeanDriver
    from pams.logs.base import Logger, OrderLog
    from pams.order import LIMIT_ORDER
    rng = ctx.rng("logger")
    lines, expects = [], []

    class L(Logger):
        def __init__(self):
            super().__init__()
            self.got = []

        def process_order_log(self, log):
            self.got.append(log.order_id)

    def mk(x):
        return OrderLog(order_id=x, market_id=0, time=0, agent_id=0, is_buy=True, kind=LIMIT_ORDER, volume=1, price=1.0)
    for i in range(n):
        lg = L()
        toks = ["logger"]
        k = 0
        for _ in range(rng.randint(1, 25)):
            r = rng.random()
            if r < 0.4:
                k += 1
                lg.write(mk(k))
                toks += ["w", str(k)]
            elif r < 0.6:
                xs = list(range(k + 1, k + 1 + rng.randint(0, 4)))
                k += len(xs)
                lg.bulk_write([mk(x) for x in xs])
                toks += ["b", str(len(xs))] + [str(x) for x in xs]
            elif r < 0.75:
                k += 1
                lg.write_and_direct_process(mk(k))
                toks += ["d", str(k)]
            else:
                lg._process()
                toks += ["f"]
        lines.append(" ".join(toks))
        expects.append((list(lg.got), [l.order_id for l in lg.pending_logs], toks))
    diffs = []
    out, err, dt = LeanDriver("Pure").run(lines)
    if out is None:
        return 0, [{"channel": "driver", "detail": err[-1500:]}]
    for o, (got, pend, toks) in zip(out, expects):
        d, p = o[1:].split("|")
        model = ([int(x) for x in d.split()], [int(x) for x in p.split()])
        if model != (got, pend):
            diffs.append({"channel": "logger.queue", "model": model, "impl": (got, pend), "ops": toks})
    return len(lines), diffs


def run(ctx, model_available=True):
    a = market_checks.run_market_property(ctx, PROP, n_quick=200, model_available=model_available)
    b = runner_props.run_runner_property(ctx, PROP, n_quick=50, model_available=model_available)
    res = merge(a, b)
    if model_available:
        n, diffs = logger_units(ctx, 300 * (ctx.scale if ctx.tier == "thorough" else 1))
        res["diffs"] += diffs[:20]
        res["comparisons"]["logger_sequences_compared"] = n
    # (T2) the translated source of the scheduler (where it writes its own records) under the mini-Python
    # semantics, against CPython
    import py_checks
    return py_checks.merge(res, ctx, ["runner", "logger"], n_each=100, model_available=model_available)


def search(ctx, res):
    ctx2 = type(ctx)(ctx.prop, ctx.tier, ctx.seed + 1)
    ctx2.scale = ctx.scale
    a = market_checks.run_market_property(ctx2, PROP, n_quick=800, model_available=False)
    b = runner_props.run_runner_property(ctx2, PROP, n_quick=200, model_available=False)
    res["search_note"] = "extended search: %d histories + %d simulations, no failing input" % (
        a["evaluations"], b["evaluations"])
    return a["violations"] + b["violations"]


def replay(obj):
    if obj["input"]["kind"] == "market-history":
        return market_checks.replay_market(PROP, obj)
    return runner_props.replay_runner(PROP, obj)
