"""(T) source-derived parameters: regenerate lean/PamsGen/*.lean from /repo's current sources on
every run (written only when the content changes, so an unchanged tree is a no-op build).

AmbientSites.lean — inventory of every place in pams/ where the code could consult something other
than (configuration, seed): module-level `random.*` / `numpy.random.*` calls, `set(...)` /
`frozenset(...)` / set displays (iteration order), `hash(`, `id(`, clocks, `os.urandom`, unseeded
`Random()` / `default_rng()`; and every construction of a `random.Random` with where its seed
comes from.  PamsProps/C07.lean proves (by `decide`) that each generated site is one of the
modelled ones, so a new site makes that theorem fail to compile.
"""
import ast
import os

from common import LEAN_DIR, REPO


def write_if_changed(path, text):
    if os.path.exists(path) and open(path).read() == text:
        return False
    os.makedirs(os.path.dirname(path), exist_ok=True)
    tmp = "%s.%d.tmp" % (path, os.getpid())   # atomic: checks of several properties may run in parallel
    with open(tmp, "w") as f:
        f.write(text)
    os.replace(tmp, path)
    return True


class SiteVisitor(ast.NodeVisitor):
    def __init__(self, rel):
        self.rel = rel
        self.stack = []
        self.scopes = []
        self.sites = []
        self.seeds = []

    def qual(self):
        return ".".join(self.stack) or "<module>"

    def visit_ClassDef(self, node):
        self.stack.append(node.name)
        self.scopes.append("class")
        self.generic_visit(node)
        self.scopes.pop()
        self.stack.pop()

    def visit_FunctionDef(self, node):
        # memoising decorators keep results across calls (and across runs in one process)
        for d in node.decorator_list:
            src = ast.unparse(d)
            if any(k in src for k in ("lru_cache", "functools.cache", "cached_property")) or src == "cache":
                self.sites.append((self.rel, ".".join(self.stack + [node.name]), "memo-decorator"))
        self.stack.append(node.name)
        self.scopes.append("def")
        self.generic_visit(node)
        self.scopes.pop()
        self.stack.pop()

    def visit_Global(self, node):
        self.add("global-statement:" + ",".join(node.names))

    MUTABLE_CALLS = ("dict", "list", "set", "defaultdict", "OrderedDict", "Counter", "deque", "WeakValueDictionary")

    def _shared_mutable(self, targets, value):
        """a mutable container bound at module or class level is shared by every instance and every
        run in the process: state outside (configuration, seed)"""
        if self.scopes and self.scopes[-1] == "def":
            return
        if value is None:
            return
        mutable = isinstance(value, (ast.Dict, ast.List, ast.Set, ast.DictComp, ast.ListComp, ast.SetComp))
        if isinstance(value, ast.Call):
            f = value.func
            name = f.id if isinstance(f, ast.Name) else (f.attr if isinstance(f, ast.Attribute) else "")
            mutable = name in self.MUTABLE_CALLS
        if not mutable:
            return
        for t in targets:
            nm = ast.unparse(t)
            if nm == "__all__":
                continue
            self.sites.append((self.rel, self.qual(), "shared-mutable:" + nm))

    def visit_Assign(self, node):
        self._shared_mutable(node.targets, node.value)
        self.generic_visit(node)

    def visit_AnnAssign(self, node):
        self._shared_mutable([node.target], node.value)
        self.generic_visit(node)

    visit_AsyncFunctionDef = visit_FunctionDef

    def add(self, kind):
        self.sites.append((self.rel, self.qual(), kind))

    def visit_Set(self, node):
        self.add("set")
        self.generic_visit(node)

    def visit_SetComp(self, node):
        self.add("set")
        self.generic_visit(node)

    def visit_Call(self, node):
        f = node.func
        if isinstance(f, ast.Name):
            if f.id in ("set", "frozenset"):
                self.add("set")
            elif f.id in ("hash", "id"):
                self.add(f.id)
        elif isinstance(f, ast.Attribute):
            chain = []
            cur = f
            while isinstance(cur, ast.Attribute):
                chain.append(cur.attr)
                cur = cur.value
            if isinstance(cur, ast.Name):
                chain.append(cur.id)
            chain = list(reversed(chain))
            dotted = ".".join(chain)
            if chain[0] == "random" and len(chain) == 2:
                if chain[1] in ("Random", "SystemRandom"):
                    if not node.args and not node.keywords:
                        self.add("unseeded-Random")
                    else:
                        src = ast.unparse(node.args[0]) if node.args else ast.unparse(node.keywords[0].value)
                        self.seeds.append((self.rel, self.qual(), "parent-draw" if "_prng.randint" in src or "prng.randint" in src else "other:" + src))
                else:
                    self.add("global-random")
            elif chain[:2] in (["np", "random"], ["numpy", "random"]):
                if chain[-1] in ("default_rng", "Generator", "RandomState", "SeedSequence", "PCG64", "MT19937"):
                    if not node.args and not node.keywords:
                        self.add("unseeded-numpy-rng")
                    else:
                        src = ast.unparse(node.args[0]) if node.args else ""
                        self.seeds.append((self.rel, self.qual(), "parent-draw" if "_prng.randint" in src else "other:" + src))
                else:
                    self.add("global-numpy-random")
            elif chain[0] == "time" and len(chain) == 2:
                self.add("clock")
            elif dotted in ("os.urandom", "os.getpid", "uuid.uuid4", "uuid.uuid1", "datetime.now", "datetime.datetime.now",
                            "secrets.token_bytes", "secrets.randbelow"):
                self.add("ambient:" + dotted)
        self.generic_visit(node)


def lean_str(s):
    return '"' + s.replace("\\", "\\\\").replace('"', '\\"') + '"'


OPS = {ast.Lt: "<", ast.LtE: "<=", ast.Gt: ">", ast.GtE: ">=", ast.Eq: "==", ast.NotEq: "!=", ast.Is: "is",
       ast.IsNot: "is not", ast.In: "in", ast.NotIn: "not in"}

# decision fragments whose comparison operators are extracted (file, class or None, function)
FRAGMENTS = [
    ("pams/order.py", "Order", "_gt_lt"),
    ("pams/order.py", "Order", "is_expired"),
    ("pams/order_book.py", "OrderBook", "_check_expired_orders"),
    ("pams/market.py", "Market", "remain_executable_orders"),
    ("pams/market.py", "Market", "_execution"),
    ("pams/market.py", "Market", "_update_market_price"),
    ("pams/market.py", "Market", "_add_order"),
    ("pams/runners/sequential.py", "SequentialRunner", "_collect_orders_from_normal_agents"),
    ("pams/runners/sequential.py", "SequentialRunner", "_handle_orders"),
    ("pams/events/price_limit_rule.py", "PriceLimitRule", "get_limited_price"),
    ("pams/events/trading_halt_rule.py", "TradingHaltRule", "hooked_after_execution"),
    ("pams/events/trading_halt_rule.py", "TradingHaltRule", "hooked_before_step_for_market"),
    ("pams/events/order_mistake_shock.py", "OrderMistakeShock", "hooked_before_order"),
    ("pams/agents/arbitrage_agent.py", "ArbitrageAgent", "_submit_orders"),
    ("pams/agents/fcn_agent.py", "FCNAgent", "submit_orders_by_market"),
    ("pams/utils/json_extends.py", None, "json_extends"),
]


def find_func(tree, cls, fn):
    scope = tree.body
    if cls is not None:
        for n in tree.body:
            if isinstance(n, ast.ClassDef) and n.name == cls:
                scope = n.body
                break
        else:
            return None
    for n in scope:
        if isinstance(n, (ast.FunctionDef, ast.AsyncFunctionDef)) and n.name == fn:
            return n
    return None


def compare_ops(func):
    """operators of every comparison in source order (identifier names are deliberately ignored so
    that renaming a variable is not noticed, flipping or weakening an operator is)"""
    out = []
    for node in sorted((n for n in ast.walk(func) if isinstance(n, ast.Compare)),
                       key=lambda n: (n.lineno, n.col_offset)):
        out.append(" ".join(OPS.get(type(o), type(o).__name__) for o in node.ops))
    return out


def gt_lt_pairs(func):
    """for every `X if gt else Y` in `_gt_lt`: (what is returned for __gt__, for __lt__), reduced to the
    comparison operator or the constant"""
    def red(e):
        if isinstance(e, ast.Compare):
            return " ".join(OPS.get(type(o), "?") for o in e.ops)
        if isinstance(e, ast.Constant):
            return str(e.value)
        return "expr"
    out = []
    for node in sorted((n for n in ast.walk(func) if isinstance(n, ast.IfExp)), key=lambda n: (n.lineno, n.col_offset)):
        if isinstance(node.test, ast.Name) and node.test.id == "gt":
            out.append((red(node.body), red(node.orelse)))
    return out


def session_key_table(func):
    """settings key -> attribute assigned from it in Session.setup"""
    out = []
    for node in ast.walk(func):
        if isinstance(node, ast.Assign) and len(node.targets) == 1:
            t = node.targets[0]
            if isinstance(t, ast.Attribute) and isinstance(t.value, ast.Name) and t.value.id == "self":
                for sub in ast.walk(node.value):
                    if isinstance(sub, ast.Subscript) and isinstance(sub.value, ast.Name) and sub.value.id == "settings" \
                            and isinstance(sub.slice, ast.Constant):
                        out.append((sub.slice.value, t.attr, node.lineno))
    return [(k, a) for k, a, _ in sorted(out, key=lambda x: x[2])]


def trigger_time_sources(tree):
    out = []
    for n in tree.body:
        if isinstance(n, ast.ClassDef) and n.name == "Simulator":
            for f in n.body:
                if isinstance(f, ast.FunctionDef) and f.name.startswith("_trigger_event_"):
                    for st in f.body:
                        if isinstance(st, ast.AnnAssign) and isinstance(st.target, ast.Name) and st.target.id == "time":
                            out.append((f.name, ast.unparse(st.value)))
    return out


RELEVANT_CALLS = ("_trigger_event_before_order", "_add_order", "submitted_order", "_trigger_event_after_order",
                  "_trigger_event_before_cancel", "_cancel_order", "canceled_order", "_trigger_event_after_cancel",
                  "_execution", "_update_agents_for_execution", "executed_order", "_trigger_event_after_execution")


def request_paths(fn):
    """symbolic walk of the two `for order in …` loop bodies of `_handle_orders` (normal and
    high-frequency branch) for the four scenarios (order / cancel) x (execution on / off): the calls
    and agent look-ups in evaluation order, one iteration of every inner loop"""
    loops = [n for n in ast.walk(fn) if isinstance(n, ast.For) and isinstance(n.target, ast.Name) and n.target.id == "order"
             and not any(isinstance(p, ast.GeneratorExp) for p in [n])]
    loops.sort(key=lambda n: n.lineno)
    out = []

    def expr_tokens(e, toks):
        # evaluation order: arguments / subscripts before the call itself
        for child in ast.iter_child_nodes(e):
            expr_tokens(child, toks)
        if isinstance(e, ast.Subscript) and isinstance(e.value, ast.Attribute) and e.value.attr == "id2agent":
            src = ast.unparse(e.slice)
            toks.append("agent:" + src.split(".", 1)[1] if "." in src else "agent:" + src)
        elif isinstance(e, ast.Call) and isinstance(e.func, ast.Attribute) and e.func.attr in RELEVANT_CALLS:
            toks.append(e.func.attr)

    def walk(stmts, is_order, execution, toks):
        for st in stmts:
            if isinstance(st, ast.If):
                test = ast.unparse(st.test)
                if test == "isinstance(order, Order)":
                    walk(st.body if is_order else st.orelse, is_order, execution, toks)
                elif test == "isinstance(order, Cancel)":
                    walk(st.body if not is_order else st.orelse, is_order, execution, toks)
                elif test == "session.with_order_execution":
                    walk(st.body if execution else st.orelse, is_order, execution, toks)
                elif test == "not session.with_order_placement":
                    walk(st.orelse, is_order, execution, toks)
                else:
                    toks.append("cond:" + test)
                    walk(st.body, is_order, execution, toks)
            elif isinstance(st, ast.For):
                toks.append("for[")
                walk(st.body, is_order, execution, toks)
                toks.append("]")
            elif isinstance(st, ast.Raise):
                toks.append("raise")
            else:
                expr_tokens(st, toks)
    for name, loop in zip(("normal", "hft"), loops[:2]):
        for is_order in (True, False):
            for execution in (True, False):
                toks = []
                walk(loop.body, is_order, execution, toks)
                out.append((name, not is_order, execution, toks))
    return out


def regenerate_fragments(status):
    trees = {}

    def tree_of(rel):
        if rel not in trees:
            trees[rel] = ast.parse(open(os.path.join(REPO, rel)).read())
        return trees[rel]
    frag = []
    for rel, cls, fn in FRAGMENTS:
        try:
            f = find_func(tree_of(rel), cls, fn)
        except Exception:
            f = None
        name = (cls + "." if cls else "") + fn
        if f is None:
            frag.append((name, ["<extraction unavailable>"]))
            status["fragment:" + name] = "unavailable"
        else:
            frag.append((name, compare_ops(f)))
    try:
        pairs = gt_lt_pairs(find_func(tree_of("pams/order.py"), "Order", "_gt_lt"))
    except Exception:
        pairs = []
    try:
        keys = session_key_table(find_func(tree_of("pams/session.py"), "Session", "setup"))
    except Exception:
        keys = []
    try:
        times = trigger_time_sources(tree_of("pams/simulator.py"))
    except Exception:
        times = []
    text = "-- generated by harness/extract.py from /repo/pams — do not edit\nnamespace PamsGen\n\n"
    text += "/-- comparison operators, in source order, of the decision fragments the models transcribe -/\n"
    text += "def compareOps : List (String × List String) :=\n  [" + ",\n   ".join(
        "(%s, [%s])" % (lean_str(n), ", ".join(lean_str(o) for o in ops)) for n, ops in frag) + "]\n\n"
    text += "/-- `Order._gt_lt`: for each `X if gt else Y`, (result for `__gt__`, result for `__lt__`) -/\n"
    text += "def gtLtPairs : List (String × String) :=\n  [" + ", ".join("(%s, %s)" % (lean_str(a), lean_str(b)) for a, b in pairs) + "]\n\n"
    text += "/-- `Session.setup`: settings key ↦ attribute it is assigned to -/\n"
    text += "def sessionKeys : List (String × String) :=\n  [" + ",\n   ".join("(%s, %s)" % (lean_str(a), lean_str(b)) for a, b in keys) + "]\n\n"
    text += "/-- `Simulator._trigger_event_*`: the expression that gives the occurrence's time -/\n"
    text += "def triggerTimes : List (String × String) :=\n  [" + ",\n   ".join("(%s, %s)" % (lean_str(a), lean_str(b)) for a, b in times) + "]\n\n"
    try:
        paths = request_paths(find_func(tree_of("pams/runners/sequential.py"), "SequentialRunner", "_handle_orders"))
    except Exception:
        paths = []
    text += "/-- `SequentialRunner._handle_orders`: (branch, isCancel, execution on, calls and agent look-ups in evaluation order) -/\n"
    text += "def requestPaths : List (String × Bool × Bool × List String) :=\n  [" + ",\n   ".join(
        "(%s, %s, %s, [%s])" % (lean_str(n), "true" if c else "false", "true" if e else "false", ", ".join(lean_str(t) for t in toks))
        for n, c, e, toks in paths) + "]\n\nend PamsGen\n"
    status["request_paths"] = len(paths)
    changed = write_if_changed(os.path.join(LEAN_DIR, "PamsGen", "Fragments.lean"), text)
    status["Fragments"] = {"functions": len(frag), "rewritten": changed}


def regenerate():
    status = {}
    sites, seeds = [], []
    root = os.path.join(REPO, "pams")
    for d, _, files in sorted(os.walk(root)):
        for fn in sorted(files):
            if not fn.endswith(".py"):
                continue
            p = os.path.join(d, fn)
            rel = os.path.relpath(p, REPO)
            try:
                tree = ast.parse(open(p).read())
            except SyntaxError as e:
                status[rel] = "unparsable: %s" % e
                continue
            v = SiteVisitor(rel)
            v.visit(tree)
            sites += v.sites
            seeds += v.seeds
    sites = sorted(set(sites))
    seeds = sorted(set(seeds))
    text = "-- generated by harness/extract.py from /repo/pams — do not edit\nnamespace PamsGen\n\n"
    text += "/-- (file, enclosing definition, kind) of every ambient-nondeterminism site -/\n"
    text += "def ambientSites : List (String × String × String) :=\n  [" + ",\n   ".join(
        "(%s, %s, %s)" % (lean_str(a), lean_str(b), lean_str(c)) for a, b, c in sites) + "]\n\n"
    text += "/-- every construction of a pseudo random generator and where its seed comes from -/\n"
    text += "def seedSites : List (String × String × String) :=\n  [" + ",\n   ".join(
        "(%s, %s, %s)" % (lean_str(a), lean_str(b), lean_str(c)) for a, b, c in seeds) + "]\n\nend PamsGen\n"
    changed = write_if_changed(os.path.join(LEAN_DIR, "PamsGen", "AmbientSites.lean"), text)
    status["AmbientSites"] = {"sites": len(sites), "seed_sites": len(seeds), "rewritten": changed}
    regenerate_fragments(status)
    try:
        import py2lean
        status["Code"] = py2lean.regenerate()       # (T2) the abstract syntax of the decision code
    except Exception as e:
        status["Code"] = {"error": "%s: %s" % (type(e).__name__, e)}
    stamp = os.path.join(LEAN_DIR, "PamsGen", "Stamp.lean")
    write_if_changed(stamp, "-- generated by harness/extract.py\nnamespace PamsGen\ndef generated : Bool := true\nend PamsGen\n")
    return status


if __name__ == "__main__":
    import json
    print(json.dumps(regenerate(), indent=1))
