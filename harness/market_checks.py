"""Market-level correspondence run and the model-independent property monitors for
C01, C02, C03, C04, C08 and the market-level parts of C06 and C10."""
import itertools
import json
import math

import common
from common import LeanDriver, digest
from impl_market import MarketRun, gen_history, small_scope_histories, small_scope_market_orders

# which driver channels implicate which property (a divergence on a channel is reported only by
# the properties whose theorems speak about the model function producing that channel)
CHANNELS = {
    # C01 / C03 are proved under the market invariant (sides sorted by priority): a divergence of
    # the book's pop order from the sorted model breaks the tie of that hypothesis as well
    "C01": {"fill.price", "fill.pairs", "out.err@exec", "state.book"},
    "C02": {"prio", "fill.pairs", "state.book"},
    "C03": {"exec.pred", "out.err@exec", "state.book"},
    "C04": {"out.order", "out.cancel", "out.expiry", "fill.pairs", "state.book", "state.gone",
            "out.err@add", "out.err@cancel", "state.clock"},
    "C06": {"state.clock", "state.past"},
    "C08": {"state.series", "state.past", "book.depth", "fill.price"},
    "C10": {"out.order", "out.cancel", "out.expiry", "fill.pairs", "fill.price"},
}


def viol(prop, sig, requires, observed, cfg, ops, step=None):
    return {"signature": sig, "requires": requires, "observed": observed, "monitor": prop,
            "input": {"kind": "market-history", "cfg": cfg, "ops": ops, "step": step}}


# ---------------------------------------------------------------------------------------------
# documented ranking, from the property's words (independent of pams' operators)
# ---------------------------------------------------------------------------------------------
def ranks_before(a, b, is_buy):
    if a["price"] is None and b["price"] is not None:
        return True
    if a["price"] is not None and b["price"] is None:
        return False
    if a["price"] is not None and a["price"] != b["price"]:
        return a["price"] > b["price"] if is_buy else a["price"] < b["price"]
    return (a["placed"], a["id"]) < (b["placed"], b["id"])


# ---------------------------------------------------------------------------------------------
# monitors: each takes the finished MarketRun and returns a list of violations
# ---------------------------------------------------------------------------------------------
def mon_C01(run, cfg, ops):
    out = []
    checks = 0
    for st in run.steps:
        if st["op"]["op"] != "exec" or st["result"][0] != "fills" or not st["result"][1]:
            continue
        fills = st["result"][1]
        pre = st["pre"]
        buys = {o["id"]: o for o in pre["buys"]}
        sells = {o["id"]: o for o in pre["sells"]}
        prices = {f[6] for f in fills}
        checks += 1
        if len(prices) != 1:
            out.append(viol("C01", "C01/round-with-two-prices", "all fills of one round carry one price",
                            {"prices": sorted(prices)}, cfg, ops, st["i"]))
        for f in fills:
            _, t, ba, sa, bid, sid, price, vol, mid = f
            b, s = buys.get(bid), sells.get(sid)
            if b is None or s is None or b["agent"] != ba or s["agent"] != sa or mid != run.m.market_id:
                out.append(viol("C01", "C01/fill-not-between-resting-buy-and-sell",
                                "each fill pairs one resting buy and one resting sell order of this market",
                                {"fill": f}, cfg, ops, st["i"]))
                continue
            if b["price"] is not None and price > b["price"]:
                out.append(viol("C01", "C01/price-above-buyer-limit", "fill price <= buyer's limit",
                                {"fill": f, "buyer": b}, cfg, ops, st["i"]))
            if s["price"] is not None and price < s["price"]:
                out.append(viol("C01", "C01/price-below-seller-limit", "fill price >= seller's limit",
                                {"fill": f, "seller": s}, cfg, ops, st["i"]))
        # rule (d) on the last pair
        f = fills[-1]
        b, s = buys.get(f[4]), sells.get(f[5])
        if b is not None and s is not None:
            if b["price"] is None and s["price"] is None:
                want = "limit-side-required"
            elif b["price"] is None:
                want = s["price"]
            elif s["price"] is None:
                want = b["price"]
            else:
                want = b["price"] if (b["placed"], b["id"]) < (s["placed"], s["id"]) else s["price"]
            if want != f[6]:
                out.append(viol("C01", "C01/price-not-earlier-order-of-last-pair",
                                "round price = limit price of the earlier-accepted order of the last pair (limit side if the other is a market order)",
                                {"last_fill": f, "buyer": b, "seller": s, "expected": want}, cfg, ops, st["i"]))
    return out, checks


def mon_C02(run, cfg, ops):
    out = []
    checks = 0
    for st in run.steps:
        kind = st["op"]["op"]
        if kind == "exec" and st["result"][0] == "fills" and st["result"][1]:
            fills = st["result"][1]
            pre = st["pre"]
            post = run.steps[st["i"] + 1]["pre"] if st["i"] + 1 < len(run.steps) else run.final
            for side, key, isbuy in (("buys", 4, True), ("sells", 5, False)):
                pre_side = {o["id"]: o for o in pre[side]}
                filled_ids = {f[key] for f in fills}
                for y in post[side]:
                    for fid in filled_ids:
                        x = pre_side.get(fid)
                        checks += 1
                        if x is not None and y["id"] != fid and ranks_before(y, x, isbuy):
                            out.append(viol("C02", "C02/lower-priority-filled-first",
                                            "no order is filled while a higher-priority order of the same side keeps unfilled volume",
                                            {"filled": x, "left_resting": y}, cfg, ops, st["i"]))
        if kind == "cmp":
            for a, b, r in st["result"][1]:
                lt, gt, eq, le, ge = r
                checks += 1
                want_lt = ranks_before(a, b, a["buy"]) and a["id"] != b["id"]
                want_gt = ranks_before(b, a, a["buy"]) and a["id"] != b["id"]
                want_eq = a["id"] == b["id"]
                if (lt, gt, eq, le, ge) != (want_lt, want_gt, want_eq, want_lt or want_eq, want_gt or want_eq):
                    out.append(viol("C02", "C02/comparison-disagrees-with-ranking",
                                    "<,>,==,<=,>= on accepted orders of one side form the strict total order market<limit, better price, earlier time, lower id",
                                    {"a": a, "b": b, "got": r,
                                     "want": (want_lt, want_gt, want_eq, want_lt or want_eq, want_gt or want_eq)},
                                    cfg, ops, st["i"]))
        # the engine's pop order must be the ranking order (heap invariant)
        pre = st["pre"]
        for side, isbuy, top in (("buys", True, "heapTopBuy"), ("sells", False, "heapTopSell")):
            l = pre[side]
            checks += 1
            for x, y in zip(l, l[1:]):
                if not ranks_before(x, y, isbuy):
                    out.append(viol("C02", "C02/book-pop-order-not-priority-order",
                                    "the book hands out orders in priority order", {"before": x, "after": y},
                                    cfg, ops, st["i"]))
                    break
            if l:
                best = min(l, key=lambda o: (0 if o["price"] is None else 1,
                                             (-o["price"] if isbuy else o["price"]) if o["price"] is not None else 0,
                                             o["placed"], o["id"]))
                if pre[top] != best["id"]:
                    out.append(viol("C02", "C02/best-order-not-highest-priority",
                                    "get_best_order() is the highest-priority resting order",
                                    {"heap_top": pre[top], "best": best}, cfg, ops, st["i"]))
    return out, checks


def mon_C03(run, cfg, ops):
    out = []
    checks = 0
    for st in run.steps:
        if st["op"]["op"] != "exec":
            continue
        pre = st["pre"]
        if st["result"][0] == "err":
            if pre["running"]:
                checks += 1
                out.append(viol("C03", "C03/round-raised:" + st["result"][1] + ":" + st["result"][2][:40],
                                "a matching round on a running market never raises",
                                {"error": st["result"]}, cfg, ops, st["i"]))
            continue
        post = run.steps[st["i"] + 1]["pre"] if st["i"] + 1 < len(run.steps) else run.final
        checks += 1
        if post["buys"] and post["sells"]:
            b, s = post["buys"][0], post["sells"][0]
            if b["price"] is not None or s["price"] is not None:
                if b["price"] is None or s["price"] is None or not (b["price"] < s["price"]):
                    out.append(viol("C03", "C03/executable-pair-left-after-round",
                                    "after a round: if a best order is a limit order, both are and best bid < best ask",
                                    {"best_bid": b, "best_ask": s}, cfg, ops, st["i"]))
    return out, checks


def mon_C04(run, cfg, ops):
    out = []
    checks = 0
    accepted, filled, terminal, dead_at = {}, {}, {}, {}
    placed_ttl = {}
    for st in run.steps:
        kind = st["op"]["op"]
        res = st["result"]
        pre = st["pre"]
        for side in ("buys", "sells"):
            for o in pre[side]:
                checks += 1
                if o["vol"] <= 0:
                    out.append(viol("C04", "C04/resting-order-with-nonpositive-volume",
                                    "resting orders always have positive volume", {"order": o}, cfg, ops, st["i"]))
        if kind == "add":
            sub = st.get("submitted", {})
            if res[0] == "order":
                oid = res[1]
                checks += 1
                if sub.get("stamped") or not sub.get("mkt_ok"):
                    out.append(viol("C04", "C04/accepted-twice-or-foreign-market",
                                    "an order object is accepted at most once and only by the market it names",
                                    {"submitted": sub, "log": res}, cfg, ops, st["i"]))
                if oid in accepted:
                    out.append(viol("C04", "C04/order-id-reused", "ids identify accepted orders",
                                    {"id": oid}, cfg, ops, st["i"]))
                accepted[oid] = res[6]
                placed_ttl[oid] = (res[2], res[7])
                if res[6] != sub.get("vol") or res[3] != sub.get("agent") or res[4] != sub.get("buy"):
                    out.append(viol("C04", "C04/order-log-differs-from-submission",
                                    "the accepted order is the submitted one", {"submitted": sub, "log": res},
                                    cfg, ops, st["i"]))
            elif res[0] == "err":
                checks += 1
                if not sub.get("stamped") and sub.get("mkt_ok") and not st.get("unexpected"):
                    out.append(viol("C04", "C04/valid-order-rejected", "a fresh order for this market is accepted",
                                    {"submitted": sub, "error": res}, cfg, ops, st["i"]))
        elif kind == "cancel" and res[0] == "cancel":
            oid = res[1]
            tgt = st["target"]
            checks += 1
            if res[7] != tgt["vol"]:
                out.append(viol("C04", "C04/cancel-log-volume-not-remaining-volume",
                                "the cancel record reports the order's remaining volume",
                                {"log": res, "order_before": tgt}, cfg, ops, st["i"]))
            if oid not in terminal:
                terminal[oid] = ("cancel", res[7], st["i"])
            post = run.steps[st["i"] + 1]["pre"] if st["i"] + 1 < len(run.steps) else run.final
            if any(o["id"] == oid for o in post["buys"] + post["sells"]):
                out.append(viol("C04", "C04/cancelled-order-still-resting",
                                "a cancelled order leaves the book", {"id": oid}, cfg, ops, st["i"]))
        elif kind in ("tick", "jump") and res[0] == "expiries":
            t_new = st["post_time"]
            should = sorted(o["id"] for o in pre["buys"] + pre["sells"]
                            if o["ttl"] is not None and o["placed"] + o["ttl"] < t_new)
            got = sorted(e[1] for e in res[1])
            checks += 1
            if should != got:
                out.append(viol("C04", "C04/expiry-set-wrong",
                                "a clock step removes exactly the resting orders with placed_at+ttl < new time, one record each",
                                {"expected_ids": should, "expired_ids": got, "time": t_new}, cfg, ops, st["i"]))
            post = run.steps[st["i"] + 1]["pre"] if st["i"] + 1 < len(run.steps) else run.final
            still = sorted(o["id"] for o in post["buys"] + post["sells"] if o["id"] in should)
            if still:
                out.append(viol("C04", "C04/expired-order-still-resting",
                                "an order leaves the book exactly when the clock passes placed_at+ttl",
                                {"ids": still, "time": t_new}, cfg, ops, st["i"]))
            vols = {o["id"]: o["vol"] for o in pre["buys"] + pre["sells"]}
            for e in res[1]:
                if e[1] not in terminal:
                    terminal[e[1]] = ("expiry", e[7], st["i"])
                if vols.get(e[1]) != e[7]:
                    out.append(viol("C04", "C04/expiry-log-volume-not-remaining-volume",
                                    "the expiry record reports the remaining volume",
                                    {"log": e, "resting_volume": vols.get(e[1])}, cfg, ops, st["i"]))
        elif kind == "exec" and res[0] == "fills":
            for f in res[1]:
                _, t, ba, sa, bid, sid, price, vol, mid = f
                for oid in (bid, sid):
                    checks += 1
                    filled[oid] = filled.get(oid, 0) + vol
                    if oid in terminal:
                        out.append(viol("C04", "C04/fill-after-" + terminal[oid][0],
                                        "an order is never filled after its cancel / expiry",
                                        {"fill": f, "terminal": terminal[oid]}, cfg, ops, st["i"]))
                    pt = placed_ttl.get(oid)
                    if pt and pt[1] is not None and t > pt[0] + pt[1]:
                        out.append(viol("C04", "C04/fill-later-than-placed-plus-ttl",
                                        "no fill at a time later than acceptance time + ttl",
                                        {"fill": f, "placed_ttl": pt}, cfg, ops, st["i"]))
                if vol <= 0:
                    out.append(viol("C04", "C04/nonpositive-fill-volume", "fills have positive volume",
                                    {"fill": f}, cfg, ops, st["i"]))
    resting = {o["id"]: o["vol"] for o in run.final["buys"] + run.final["sells"]}
    for oid, vol in accepted.items():
        checks += 1
        rest = terminal[oid][1] if oid in terminal else resting.get(oid, 0)
        if vol != filled.get(oid, 0) + rest:
            out.append(viol("C04", "C04/accounting-identity",
                            "accepted volume = sum of fills + volume at first terminal event (or still resting)",
                            {"id": oid, "accepted": vol, "filled": filled.get(oid, 0),
                             "terminal": terminal.get(oid), "resting": resting.get(oid)}, cfg, ops, None))
        if oid not in terminal and oid not in resting and filled.get(oid, 0) != vol:
            out.append(viol("C04", "C04/order-vanished", "an order leaves the book only by fill, cancel or expiry",
                            {"id": oid}, cfg, ops, None))
    return out, checks


def _eq(a, b):
    if a is None or b is None:
        return a is b
    return a == b or (isinstance(a, float) and isinstance(b, float) and math.isclose(a, b, rel_tol=1e-12, abs_tol=0.0))


def mon_C08(run, cfg, ops):
    out = []
    checks = 0
    m = run.m
    step_fills = {}
    step_acc = {}
    for st in run.steps:
        kind = st["op"]["op"]
        res = st["result"]
        pre = st["pre"]
        post = run.steps[st["i"] + 1]["pre"] if st["i"] + 1 < len(run.steps) else run.final
        t = pre["time"]
        if kind == "exec" and res[0] == "fills":
            step_fills.setdefault(t, []).extend(res[1])
        if kind == "add" and res[0] == "order":
            step_acc.setdefault(t, []).append(res[4])
        book_event = (kind == "add" and res[0] == "order") or (kind == "cancel" and res[0] == "cancel") \
            or (kind == "exec" and res[0] == "fills" and res[1])
        if book_event:
            checks += 1
            bb = post["buys"][0]["price"] if post["buys"] else None
            ba = post["sells"][0]["price"] if post["sells"] else None
            want_mid = (ba + bb) / 2.0 if (bb is not None and ba is not None) else None
            if not _eq(post["cur"]["mid"], want_mid):
                out.append(viol("C08", "C08/mid-not-refreshed-after-" + kind,
                                "mid price is refreshed from the best quotes at every submission, cancel and fill",
                                {"mid": post["cur"]["mid"], "expected": want_mid, "best_bid": bb, "best_ask": ba},
                                cfg, ops, st["i"]))
            if pre["running"]:
                last = post["cur"]["last"]
                want = last if last is not None else (want_mid if want_mid is not None else pre["cur"]["market"])
                if not _eq(post["cur"]["market"], want):
                    out.append(viol("C08", "C08/market-price-rule-after-" + kind,
                                    "running: market price = last trade price if any, else mid if both quotes are limits, else unchanged",
                                    {"market": post["cur"]["market"], "expected": want}, cfg, ops, st["i"]))
            else:
                if not _eq(post["cur"]["market"], pre["cur"]["market"]):
                    out.append(viol("C08", "C08/market-price-moved-while-not-running",
                                    "while the market is not running its market price does not move",
                                    {"before": pre["cur"]["market"], "after": post["cur"]["market"]},
                                    cfg, ops, st["i"]))
        if kind == "exec" and res[0] == "fills" and res[1]:
            checks += 1
            if not _eq(post["cur"]["last"], res[1][-1][6]):
                out.append(viol("C08", "C08/last-trade-price", "last-trade price = price of the most recent fill",
                                {"last": post["cur"]["last"], "fill": res[1][-1]}, cfg, ops, st["i"]))
        if kind == "tick":
            checks += 1
            if not (_eq(post["cur"]["mid"], pre["cur"]["mid"]) and _eq(post["cur"]["last"], pre["cur"]["last"])):
                out.append(viol("C08", "C08/tick-carry", "a clock step carries mid and last-trade price over",
                                {"pre": pre["cur"], "post": post["cur"]}, cfg, ops, st["i"]))
            if pre["running"]:
                want = pre["cur"]["last"] if pre["cur"]["last"] is not None else (
                    pre["cur"]["mid"] if pre["cur"]["mid"] is not None else pre["cur"]["market"])
            else:
                want = pre["cur"]["market"]
            if not _eq(post["cur"]["market"], want):
                out.append(viol("C08", "C08/tick-market-price" + ("" if pre["running"] else "-not-running"),
                                "clock step: market price follows last trade / mid when running, else is carried unchanged",
                                {"pre": pre["cur"], "post": post["cur"], "expected": want}, cfg, ops, st["i"]))
        if kind == "jump" and res[0] == "expiries":
            # an explicit clock jump carries the most recent recorded last-trade / mid / market price over
            # (whatever their values: a trade at price 0.0 is a trade)
            checks += 1
            snap = run.snapshots[st["i"]][1] if st["i"] < len(run.snapshots) else None
            hist = {"last": [pre["cur"]["last"]], "mid": [pre["cur"]["mid"]], "market": [pre["cur"]["market"]]}
            if snap is not None:      # taken after the jump: every slot strictly before the new time
                hist = {"market": list(snap[0]), "mid": list(snap[1]), "last": list(snap[2])}
            for name in ("last", "mid"):
                rec = [x for x in hist[name] if x is not None]
                want = rec[-1] if rec else None
                if not _eq(post["cur"][name], want):
                    out.append(viol("C08", "C08/jump-carry-" + name, "the clock carries the most recent recorded %s price over" % name,
                                    {"recorded": hist[name][-5:], "after_jump": post["cur"][name], "expected": want}, cfg, ops, st["i"]))
        if kind in ("run", "cmp"):
            checks += 1
            if post["cur"] != pre["cur"]:
                out.append(viol("C08", "C08/series-changed-without-book-event", "series move only at book events and clock steps",
                                {"pre": pre["cur"], "post": post["cur"]}, cfg, ops, st["i"]))
        # depth and best quotes describe the book
        for side, isbuy, book in (("buys", True, m.buy_order_book), ("sells", False, m.sell_order_book)):
            pass
    # per-step statistics at the end (all past slots + current)
    tmax = m.time
    cum_v, cum_t = 0, 0.0
    for t in range(tmax + 1):
        fl = step_fills.get(t, [])
        v = sum(f[7] for f in fl)
        tv = 0
        for f in fl:
            tv += f[7] * f[6]
        acc = step_acc.get(t, [])
        checks += 1
        got = (m._executed_volumes[t], m._executed_total_prices[t], m._n_buy_orders[t], m._n_sell_orders[t])
        want = (v, tv, sum(1 for x in acc if x), sum(1 for x in acc if not x))
        if got[0] != want[0] or not _eq(float(got[1]), float(want[1])) or got[2:] != want[2:]:
            out.append(viol("C08", "C08/step-statistics", "executed volume, turnover and buy/sell order counts per step = sums over that step's fills and acceptances",
                            {"time": t, "got": got, "want": want}, cfg, ops, None))
        cum_v += v
        cum_t += tv
        vw = m.get_vwap(t)
        if cum_v == 0:
            ok = vw != vw
        else:
            ok = math.isclose(vw, sum(m._executed_total_prices[: t + 1]) / cum_v, rel_tol=1e-12) and \
                math.isclose(vw, cum_t / cum_v, rel_tol=1e-9)
        if not ok:
            out.append(viol("C08", "C08/vwap", "VWAP(t) = total turnover / total volume up to t (NaN without volume)",
                            {"time": t, "vwap": vw, "turnover": cum_t, "volume": cum_v}, cfg, ops, None))
    return out, checks


def mon_C08_depth(run_steps_depth):
    return [], 0


def mon_C06m(run, cfg, ops):
    out = []
    checks = 0
    prev = None
    for st, (t, snap) in zip(run.steps, run.snapshots):
        for name, r in st["future"].items():
            checks += 1
            if r != "refused":
                out.append(viol("C06", "C06/future-query-not-refused:" + name,
                                "queries for a time later than the current time are refused", {"getter": name, "result": r},
                                cfg, ops, st["i"]))
        if prev is not None:
            pt, psnap = prev
            checks += 1
            for k, (a, b) in enumerate(zip(psnap, snap)):
                if tuple(b[:pt]) != tuple(a[:pt]):
                    names = ["market", "mid", "last", "fundamental", "executed volume", "turnover", "n buy", "n sell"]
                    out.append(viol("C06", "C06/past-value-changed:" + names[k],
                                    "values recorded for a past time never change afterwards",
                                    {"series": names[k], "before": a[:pt], "after": b[:pt]}, cfg, ops, st["i"]))
        if st["op"]["op"] == "jump":
            checks += 1
            if st["post_time"] != st["pre"]["time"] + st["op"]["k"]:
                out.append(viol("C06", "C06/clock-jump-wrong", "an explicit clock jump moves the clock by the requested amount",
                                {"before": st["pre"]["time"], "after": st["post_time"]}, cfg, ops, st["i"]))
        elif st["op"]["op"] == "tick":
            checks += 1
            if st["post_time"] != st["pre"]["time"] + 1:
                out.append(viol("C06", "C06/clock-step-not-one", "the clock advances by exactly one per step",
                                {"before": st["pre"]["time"], "after": st["post_time"]}, cfg, ops, st["i"]))
        elif st["post_time"] != st["pre"]["time"]:
            out.append(viol("C06", "C06/clock-moved-outside-step", "only a clock step advances the clock",
                            {"before": st["pre"]["time"], "after": st["post_time"]}, cfg, ops, st["i"]))
        prev = (t, snap)
    return out, checks


def mon_C10m(run, cfg, ops):
    """market level: each event writes exactly one record to the logger, with the event's values"""
    out = []
    checks = 0
    for st in run.steps:
        res = st["result"]
        want = []
        if res[0] in ("order", "cancel"):
            want = [res]
        elif res[0] == "fills":
            want = list(res[1])
        elif res[0] == "expiries":
            want = list(res[1])
        got = [l for _, l in st["logger"]]
        checks += 1
        if sorted(map(repr, got)) != sorted(map(repr, want)) or (res[0] == "fills" and got != want):
            dup = len(got) > len(want) and all(g in want for g in got)
            sig = "C10/market-record-" + ("duplicated:" if dup else "mismatch:") + res[0]
            out.append(viol("C10", sig, "the logger receives exactly one record per order, cancel, fill, expiry, in order, with the event's values",
                            {"written": got, "events": want}, cfg, ops, st["i"]))
    return out, checks


MONITORS = {"C01": mon_C01, "C02": mon_C02, "C03": mon_C03, "C04": mon_C04, "C08": mon_C08,
            "C06": mon_C06m, "C10": mon_C10m}


# ---------------------------------------------------------------------------------------------
def nontrivial(prop, run):
    """the property's non-trivial rule (DESIGN section 5) evaluated on a finished run"""
    steps = run.steps
    rounds = [s for s in steps if s["op"]["op"] == "exec" and s["result"][0] == "fills" and s["result"][1]]
    if prop == "C01":
        for s in rounds:
            fl = s["result"][1]
            pre = {o["id"]: o for o in s["pre"]["buys"] + s["pre"]["sells"]}
            lv = {pre[f[4]]["price"] for f in fl if f[4] in pre} | {pre[f[5]]["price"] for f in fl if f[5] in pre}
            if (len(fl) >= 2 and len(lv - {None}) >= 2) or (None in lv and len(lv) >= 2):
                return True
        return False
    if prop == "C02":
        for s in steps:
            for side in ("buys", "sells"):
                l = s["pre"][side]
                if len(l) >= 3:
                    pr = [o["price"] for o in l]
                    if len(pr) != len(set(pr)):
                        return bool(rounds)
        return False
    if prop == "C03":
        for s in steps:
            if s["op"]["op"] == "exec":
                b, a = s["pre"]["buys"], s["pre"]["sells"]
                if b and a and b[0]["price"] is None and a[0]["price"] is None:
                    return True
                if s["result"][0] == "fills" and len({f[4] for f in s["result"][1]} | {f[5] for f in s["result"][1]}) >= 4:
                    return True
        return False
    if prop == "C04":
        part = set()
        for s in rounds:
            for f in s["result"][1]:
                part |= {f[4], f[5]}
        for s in steps:
            if s["op"]["op"] == "cancel" and s["result"][0] == "cancel" and s["result"][1] in part and s["result"][7] > 0:
                return True
            if s["op"]["op"] == "tick" and s["result"][0] == "expiries" and any(e[1] in part for e in s["result"][1]):
                return True
        return False
    if prop == "C08":
        toggles = sum(1 for s in steps if s["op"]["op"] == "run")
        return toggles >= 2 and bool(rounds)
    if prop == "C06":
        return sum(1 for s in steps if s["op"]["op"] == "tick") >= 3 and bool(rounds)
    if prop == "C10":
        kinds = {s["result"][0] for s in steps}
        return bool(rounds) and "cancel" in kinds and any(s["result"][0] == "expiries" and s["result"][1] for s in steps)
    return False


def shrink(prop, cfg, ops, sig, budget=150):
    """delta debugging on the op list, keeping the monitor signature"""
    mon = MONITORS[prop]

    def fails(o):
        try:
            r = MarketRun(cfg).run(o, emit=False)
            vs, _ = mon(r, cfg, o)
            return any(v["signature"] == sig for v in vs)
        except Exception:
            return False
    cur = list(ops)
    n = 2
    tries = 0
    while len(cur) >= 2 and tries < budget:
        chunk = max(1, len(cur) // n)
        reduced = False
        for i in range(0, len(cur), chunk):
            cand = cur[:i] + cur[i + chunk:]
            tries += 1
            if cand and fails(cand):
                cur = cand
                n = max(n - 1, 2)
                reduced = True
                break
            if tries >= budget:
                break
        if not reduced:
            if chunk == 1:
                break
            n = min(n * 2, len(cur))
    return cur


def run_market_property(ctx, prop, n_quick=400, ops_len=60, extra_gen=None, model_available=True,
                        sweep_share=0.0, focus=None):
    rng = ctx.rng("market")
    n = n_quick * (ctx.scale if ctx.tier == "thorough" else 1)
    mon = MONITORS[prop]
    chans = CHANNELS[prop]
    all_lines = []
    line_meta = []      # per line: (case, op index, op kind)
    cases = []
    violations = []
    monitor_checks = 0
    hashes = set()
    nontriv = set()
    dist = {"ops": {}, "profiles": {}, "fills": 0, "rounds": 0, "rounds_multi_fill": 0,
            "market_orders": 0, "orders": 0, "cancels_of_gone": 0, "expiries": 0,
            "max_book_depth": 0, "exec_not_running_errors": 0, "rejected_submissions": 0}
    samples = []

    def gen_all():
        for k in range(n):
            if rng.random() < sweep_share:
                yield gen_history(rng, 30, profile="sweep")
            elif focus and rng.random() < focus[1]:
                yield gen_history(rng, rng.choice([30, 60, 90]), profile=focus[0])
            else:
                yield gen_history(rng, rng.choice([20, 40, ops_len, ops_len]))
        if extra_gen is not None:
            for c in extra_gen(rng):
                yield c
        if ctx.tier == "thorough":
            for c in small_scope_histories(2):
                yield c
            for c in small_scope_market_orders(4):
                yield c

    corpus_dir = common.os.path.join(common.VERIF, "harness", "corpus")
    corpus = []
    if common.os.path.isdir(corpus_dir):
        for f in sorted(common.os.listdir(corpus_dir)):
            if f.startswith("market_") and f.endswith(".json"):
                c = json.load(open(common.os.path.join(corpus_dir, f)))
                corpus.append((c["cfg"], c["ops"]))

    for ci, (cfg, ops) in enumerate(itertools.chain(corpus, gen_all())):
        run = MarketRun(cfg).run(ops, emit=model_available)
        h = digest([cfg, ops])
        first = h not in hashes
        hashes.add(h)
        if first and nontrivial(prop, run):
            nontriv.add(h)
        if len(samples) < 3 and first and nontrivial(prop, run):
            samples.append({"cfg": cfg, "ops": ops[:25], "n_ops": len(ops)})
        # distribution
        dist["profiles"][cfg.get("profile", "?")] = dist["profiles"].get(cfg.get("profile", "?"), 0) + 1
        for s in run.steps:
            k = s["op"]["op"]
            dist["ops"][k] = dist["ops"].get(k, 0) + 1
            r = s["result"]
            if r[0] == "fills" and r[1]:
                dist["rounds"] += 1
                dist["fills"] += len(r[1])
                if len(r[1]) >= 2:
                    dist["rounds_multi_fill"] += 1
            if r[0] == "order":
                dist["orders"] += 1
                if r[5] is None:
                    dist["market_orders"] += 1
            if r[0] == "expiries":
                dist["expiries"] += len(r[1])
            if r[0] == "err":
                if k == "exec":
                    dist["exec_not_running_errors"] += 1
                if k == "add":
                    dist["rejected_submissions"] += 1
            if k == "cancel" and r[0] == "cancel" and not any(
                    o["id"] == r[1] for o in s["pre"]["buys"] + s["pre"]["sells"]):
                dist["cancels_of_gone"] += 1
            dist["max_book_depth"] = max(dist["max_book_depth"], len(s["pre"]["buys"]), len(s["pre"]["sells"]))
            if s.get("unexpected"):
                violations.append(viol(prop, "%s/unexpected-exception:%s" % (prop, r[1]),
                                       "no operation of a valid history raises anything but the documented refusals",
                                       {"error": r}, cfg, ops, s["i"]))
        vs, nchk = mon(run, cfg, ops)
        monitor_checks += nchk
        for v in vs:
            if not any(x["signature"] == v["signature"] for x in violations):
                small = shrink(prop, cfg, ops, v["signature"])
                v["input"]["ops"] = small
                v["input"]["original_length"] = len(ops)
                violations.append(v)
        if model_available:
            # line metadata for diff attribution
            opi = -1
            kind = "init"
            for ln in run.lines:
                if ln.startswith("O "):
                    opi += 1
                    kind = ln.split()[1]
                line_meta.append((ci, opi, kind))
            all_lines.extend(run.lines)
            cases.append((cfg, ops))
    diffs = []
    comparisons = {}
    if model_available and all_lines:
        out, err, dt = LeanDriver("Market").run(all_lines)
        if out is None:
            diffs.append({"channel": "driver", "detail": err[-2000:]})
        else:
            for l in out:
                if l.startswith("diff "):
                    parts = l.split(" ", 3)
                    ln = int(parts[1]) - 1
                    ch = parts[2]
                    ci, opi, kind = line_meta[ln] if ln < len(line_meta) else (-1, -1, "?")
                    # state diffs on an S line belong to the previous op
                    tags = {ch, "%s@%s" % (ch, kind)}
                    if tags & chans:
                        cfg, ops = cases[ci]
                        diffs.append({"channel": ch, "op": kind, "case": ci, "op_index": opi,
                                      "detail": parts[3][:600], "cfg": cfg, "ops": ops[: opi + 2]})
                elif l.startswith("summary"):
                    _, nl, nc, nd = l.split()
                    comparisons = {"lines": int(nl), "compared": int(nc), "driver_diffs_all_channels": int(nd)}
    # the same market code inside whole simulations: closed-loop model (PamsModel/Sim.lean)
    if model_available and prop in SIM_CHANNELS:
        import sim_checks
        sd, st = sim_checks.sim_batch(ctx, prop, 16 * (3 if ctx.tier == "thorough" else 1), SIM_CHANNELS[prop])
        diffs += sd
        comparisons["closed_loop"] = st
    return {
        "evaluations": len(hashes), "distinct_nontrivial": len(nontriv),
        "rule": RULES[prop], "samples": samples, "violations": violations, "diffs": diffs,
        "comparisons": comparisons, "traces_validated": len(cases), "distribution": dist,
        "monitor_checks": monitor_checks,
    }


SIM_CHANNELS = {
    "C01": ("sim.records",),
    "C02": ("sim.records", "sim.final"),
    "C03": ("sim.trace", "sim.records"),
    "C04": ("sim.records", "sim.final"),
    "C08": ("sim.final",),
}

RULES = {
    "C01": "random structured market histories (submit/cancel/tick/round/running switch; 7 profiles) + corpus; non-trivial = history containing a round with >=2 fills spanning >=2 limit levels or a market/limit pair; distinct = hash of (config, op list)",
    "C02": "same generator; non-trivial = history with a side of >=3 resting orders including a price tie, and at least one round",
    "C03": "same generator (market-order-heavy profiles included); non-trivial = a round whose pre-book has market orders on top of both sides, or a round touching >=4 orders",
    "C04": "same generator; non-trivial = an order with >=1 partial fill followed by a cancel or an expiry reporting remaining volume",
    "C08": "same generator; non-trivial = history toggling running >=2 times (incl. initial) with a trade",
    "C06": "same generator; non-trivial = >=3 clock steps and a trade",
    "C10": "same generator; non-trivial = history with fills, a cancel and an expiry",
}


def replay_market(prop, obj):
    inp = obj["input"]
    run = MarketRun(inp["cfg"]).run(inp["ops"], emit=False)
    vs, _ = MONITORS[prop](run, inp["cfg"], inp["ops"])
    return {"violations": [{"signature": v["signature"], "observed": v["observed"]} for v in vs]}
