"""(T2) translator: dumps the abstract syntax of selected pams functions, as they stand in /repo's
working tree, into Lean data (`lean/PamsGen/Code.lean`, terms of `Pams.Py.FunDef`).

The translator is a *serializer*: every construct is mapped to the constructor of the same name of
`Pams.Py.Expr` / `Pams.Py.Stmt`; all meaning lives in the Lean interpreter `PamsModel/Py.lean`
(which is itself compared with CPython on generated inputs by harness/py_checks.py).  A construct
outside the fragment makes the function *untranslatable*: it is then emitted as a definition whose
body raises `Err.unsupported` with the reason, so that every theorem about it fails to compile and
the decision rule of run.py takes over (search for a failing input; otherwise
no-failing-input-found).
"""
import ast
import os
import textwrap
from fractions import Fraction

from common import LEAN_DIR, REPO

# (file, class or None, function) — the decision code the models transcribe
TARGETS = [
    ("pams/order.py", "OrderKind", "__eq__"),
    ("pams/order.py", "OrderKind", "__ne__"),
    ("pams/order.py", "Order", "check_system_acceptable"),
    ("pams/order.py", "Order", "is_expired"),
    ("pams/order.py", "Order", "_check_comparability"),
    ("pams/order.py", "Order", "__eq__"),
    ("pams/order.py", "Order", "_gt_lt"),
    ("pams/order.py", "Order", "__gt__"),
    ("pams/order.py", "Order", "__lt__"),
    ("pams/order.py", "Order", "__ne__"),
    ("pams/order.py", "Order", "__le__"),
    ("pams/order.py", "Order", "__ge__"),
    ("pams/order.py", "Cancel", "agent_id"),
    ("pams/order.py", "Cancel", "market_id"),
    ("pams/order.py", "Cancel", "check_system_acceptable"),
    ("pams/logs/base.py", "Log", "read_and_write"),
    ("pams/logs/base.py", "Log", "read_and_write_with_direct_process"),
    ("pams/logs/base.py", "Logger", "write"),
    ("pams/logs/base.py", "Logger", "bulk_write"),
    ("pams/logs/base.py", "Logger", "write_and_direct_process"),
    ("pams/logs/base.py", "Logger", "bulk_write_and_direct_process"),
    ("pams/logs/base.py", "Logger", "_process"),
    ("pams/logs/base.py", "Logger", "process"),
    ("pams/logs/base.py", "OrderLog", "__init__"),
    ("pams/logs/base.py", "CancelLog", "__init__"),
    ("pams/logs/base.py", "ExecutionLog", "__init__"),
    ("pams/logs/base.py", "ExpirationLog", "__init__"),
    ("pams/order_book.py", "OrderBook", "add"),
    ("pams/order_book.py", "OrderBook", "cancel"),
    ("pams/order_book.py", "OrderBook", "_remove"),
    ("pams/order_book.py", "OrderBook", "_set_time"),
    ("pams/order_book.py", "OrderBook", "_check_expired_orders"),
    ("pams/order_book.py", "OrderBook", "change_order_volume"),
    ("pams/market.py", "Market", "get_best_buy_price"),
    ("pams/market.py", "Market", "get_best_sell_price"),
    ("pams/market.py", "Market", "_execute_orders"),
    ("pams/market.py", "Market", "change_fundamental_price"),
    ("pams/order_book.py", "OrderBook", "get_best_order"),
    ("pams/order_book.py", "OrderBook", "get_best_price"),
    ("pams/order_book.py", "OrderBook", "__len__"),
    ("pams/market.py", "Market", "is_running"),
    ("pams/market.py", "Market", "get_time"),
    ("pams/market.py", "Market", "_extract_data_by_time"),
    ("pams/market.py", "Market", "_extract_sequential_data_by_time"),
    ("pams/market.py", "Market", "get_market_price"),
    ("pams/market.py", "Market", "get_market_prices"),
    ("pams/market.py", "Market", "get_mid_price"),
    ("pams/market.py", "Market", "get_last_executed_price"),
    ("pams/market.py", "Market", "get_fundamental_price"),
    ("pams/market.py", "Market", "get_executed_volume"),
    ("pams/market.py", "Market", "get_executed_total_price"),
    ("pams/market.py", "Market", "get_n_buy_order"),
    ("pams/market.py", "Market", "get_n_sell_order"),
    ("pams/market.py", "Market", "convert_to_tick_level_rounded_lower"),
    ("pams/market.py", "Market", "convert_to_tick_level_rounded_upper"),
    ("pams/market.py", "Market", "convert_to_tick_level"),
    ("pams/market.py", "Market", "convert_to_price"),
    ("pams/market.py", "Market", "remain_executable_orders"),
    ("pams/market.py", "Market", "_update_market_price"),
    ("pams/events/base.py", "EventHook", "__init__"),
    ("pams/events/price_limit_rule.py", "PriceLimitRule", "setup"),
    ("pams/events/trading_halt_rule.py", "TradingHaltRule", "setup"),
    ("pams/events/order_mistake_shock.py", "OrderMistakeShock", "setup"),
    ("pams/events/fundamental_price_shock.py", "FundamentalPriceShock", "setup"),
    ("pams/events/price_limit_rule.py", "PriceLimitRule", "hook_registration"),
    ("pams/events/trading_halt_rule.py", "TradingHaltRule", "hook_registration"),
    ("pams/events/order_mistake_shock.py", "OrderMistakeShock", "hook_registration"),
    ("pams/events/fundamental_price_shock.py", "FundamentalPriceShock", "hook_registration"),
    ("pams/events/price_limit_rule.py", "PriceLimitRule", "get_limited_price"),
    ("pams/events/price_limit_rule.py", "PriceLimitRule", "hooked_before_order"),
    ("pams/events/trading_halt_rule.py", "TradingHaltRule", "hooked_after_execution"),
    ("pams/events/trading_halt_rule.py", "TradingHaltRule", "hooked_before_step_for_market"),
    ("pams/events/order_mistake_shock.py", "OrderMistakeShock", "hooked_before_order"),
    ("pams/events/fundamental_price_shock.py", "FundamentalPriceShock", "hooked_before_step_for_market"),
    ("pams/index_market.py", "IndexMarket", "is_all_markets_running"),
    ("pams/index_market.py", "IndexMarket", "_add_market"),
    ("pams/index_market.py", "IndexMarket", "get_components"),
    ("pams/index_market.py", "IndexMarket", "compute_market_index"),
    ("pams/index_market.py", "IndexMarket", "compute_fundamental_index"),
    ("pams/agents/base.py", "Agent", "setup"),
    ("pams/agents/base.py", "Agent", "is_market_accessible"),
    ("pams/agents/base.py", "Agent", "set_market_accessible"),
    ("pams/agents/base.py", "Agent", "set_asset_volume"),
    ("pams/agents/base.py", "Agent", "get_asset_volume"),
    ("pams/agents/base.py", "Agent", "update_asset_volume"),
    ("pams/agents/base.py", "Agent", "update_cash_amount"),
    ("pams/agents/arbitrage_agent.py", "ArbitrageAgent", "submit_orders"),
    ("pams/agents/arbitrage_agent.py", "ArbitrageAgent", "_submit_orders"),
    ("pams/agents/market_maker_agent.py", "MarketMakerAgent", "get_base_price"),
    ("pams/agents/market_maker_agent.py", "MarketMakerAgent", "submit_orders"),
    ("pams/agents/fcn_agent.py", "FCNAgent", "submit_orders_by_market"),
    ("pams/agents/market_share_fcn_agent.py", "MarketShareFCNAgent", "submit_orders"),
    ("pams/agents/market_share_fcn_agent.py", "MarketShareFCNAgent", "get_sum_trade_volume"),
    ("pams/market.py", "Market", "get_executed_volumes"),
    ("pams/simulator.py", "Simulator", "_update_agents_for_execution"),
    ("pams/simulator.py", "Simulator", "_add_market"),
    ("pams/simulator.py", "Simulator", "_add_agent"),
    ("pams/simulator.py", "Simulator", "_add_session"),
    ("pams/simulator.py", "Simulator", "_add_event"),
    ("pams/simulator.py", "Simulator", "_check_event_class_and_instance"),
    ("pams/simulator.py", "Simulator", "_trigger_event_before_order"),
    ("pams/simulator.py", "Simulator", "_trigger_event_after_order"),
    ("pams/simulator.py", "Simulator", "_trigger_event_before_cancel"),
    ("pams/simulator.py", "Simulator", "_trigger_event_after_cancel"),
    ("pams/simulator.py", "Simulator", "_trigger_event_after_execution"),
    ("pams/simulator.py", "Simulator", "_trigger_event_before_session"),
    ("pams/simulator.py", "Simulator", "_trigger_event_after_session"),
    ("pams/simulator.py", "Simulator", "_trigger_event_before_step_for_market"),
    ("pams/simulator.py", "Simulator", "_trigger_event_after_step_for_market"),
    ("pams/simulator.py", "Simulator", "_update_time_on_market"),
    ("pams/simulator.py", "Simulator", "_update_times_on_markets"),
    ("pams/session.py", "Session", "setup"),
    ("pams/fundamentals.py", "Fundamentals", "_generate_until"),
    ("pams/fundamentals.py", "Fundamentals", "change_volatility"),
    ("pams/fundamentals.py", "Fundamentals", "change_drift"),
    ("pams/fundamentals.py", "Fundamentals", "set_correlation"),
    ("pams/fundamentals.py", "Fundamentals", "remove_correlation"),
    ("pams/fundamentals.py", "Fundamentals", "get_fundamental_price"),
    ("pams/utils/json_extends.py", None, "json_extends"),
    ("pams/utils/json_random.py", "JsonRandom", "_next_uniform"),
    ("pams/utils/json_random.py", "JsonRandom", "_next_normal"),
    ("pams/utils/json_random.py", "JsonRandom", "_next_exponential"),
    ("pams/utils/json_random.py", "JsonRandom", "random"),
    ("pams/runners/sequential.py", "SequentialRunner", "_handle_orders"),
    ("pams/runners/sequential.py", "SequentialRunner", "_collect_orders_from_normal_agents"),
    ("pams/runners/sequential.py", "SequentialRunner", "_update_markets"),
    ("pams/runners/sequential.py", "SequentialRunner", "_iterate_market_updates"),
    ("pams/runners/sequential.py", "SequentialRunner", "_run"),
    ("pams/market.py", "Market", "_add_order"),
    ("pams/market.py", "Market", "_cancel_order"),
    ("pams/market.py", "Market", "_execution"),
    ("pams/market.py", "Market", "_update_time"),
    ("pams/market.py", "Market", "_fill_until"),
]


class Unsupported(Exception):
    pass


def lstr(s):
    out = []
    for ch in s:
        if ch == '"':
            out.append('\\"')
        elif ch == "\\":
            out.append("\\\\")
        elif ch == "\n":
            out.append("\\n")
        elif ch == "\t":
            out.append("\\t")
        elif ord(ch) < 32 or ord(ch) > 126:
            out.append("?")
        else:
            out.append(ch)
    return '"' + "".join(out) + '"'


def llist(items):
    return "[" + ", ".join(items) + "]"


BINOPS = {ast.Add: "add", ast.Sub: "sub", ast.Mult: "mul", ast.Div: "div", ast.FloorDiv: "floordiv",
          ast.Mod: "mod", ast.Pow: "pow"}
CMPOPS = {ast.Eq: "eq", ast.NotEq: "ne", ast.Lt: "lt", ast.LtE: "le", ast.Gt: "gt", ast.GtE: "ge",
          ast.Is: "is", ast.IsNot: "isNot", ast.In: "isIn", ast.NotIn: "notIn"}


def is_simple(e):
    """evaluating twice is the same as once (no call, no side effect)"""
    if isinstance(e, (ast.Name, ast.Constant)):
        return True
    if isinstance(e, ast.Attribute):
        return is_simple(e.value)
    return False


def expr(e):
    if isinstance(e, ast.Constant):
        v = e.value
        if v is None:
            return ".cnone"
        if v is True or v is False:
            return "(.cbool %s)" % ("true" if v else "false")
        if isinstance(v, int):
            return "(.cint (%d))" % v
        if isinstance(v, float):
            fr = Fraction(repr(v))
            if fr < 0 or fr.numerator >= 2 ** 53 or fr.denominator >= 2 ** 53:
                raise Unsupported("float literal %r" % v)
            return "(.cflt %d %d)" % (fr.numerator, fr.denominator)
        if isinstance(v, str):
            return "(.cstr %s)" % lstr(v)
        raise Unsupported("constant %r" % (v,))
    if isinstance(e, ast.JoinedStr):
        return '(.cstr "<f-string>")'
    if isinstance(e, ast.Name):
        return "(.name %s)" % lstr(e.id)
    if isinstance(e, ast.Attribute):
        return "(.attr %s %s)" % (expr(e.value), lstr(e.attr))
    if isinstance(e, ast.BinOp):
        if type(e.op) not in BINOPS:
            raise Unsupported("binary operator %s" % type(e.op).__name__)
        return "(.bin .%s %s %s)" % (BINOPS[type(e.op)], expr(e.left), expr(e.right))
    if isinstance(e, ast.UnaryOp):
        if isinstance(e.op, ast.Not):
            return "(.un .not %s)" % expr(e.operand)
        if isinstance(e.op, ast.USub):
            return "(.un .neg %s)" % expr(e.operand)
        if isinstance(e.op, ast.UAdd):
            return expr(e.operand)
        raise Unsupported("unary operator")
    if isinstance(e, ast.BoolOp):
        parts = [expr(v) for v in e.values]
        ctor = ".and_" if isinstance(e.op, ast.And) else ".or_"
        acc = parts[-1]
        for p in reversed(parts[:-1]):
            acc = "(%s %s %s)" % (ctor, p, acc)
        return acc
    if isinstance(e, ast.Compare):
        lefts = [e.left] + list(e.comparators[:-1])
        rights = list(e.comparators)
        for mid in e.comparators[:-1]:
            if not is_simple(mid):
                raise Unsupported("chained comparison with a non-simple middle operand")
        parts = []
        for l, op, r in zip(lefts, e.ops, rights):
            parts.append("(.cmp .%s %s %s)" % (CMPOPS[type(op)], expr(l), expr(r)))
        acc = parts[-1]
        for p in reversed(parts[:-1]):
            acc = "(.and_ %s %s)" % (p, acc)
        return acc
    if isinstance(e, ast.IfExp):
        return "(.ife %s %s %s)" % (expr(e.test), expr(e.body), expr(e.orelse))
    if isinstance(e, ast.Call) and isinstance(e.func, ast.Name) and e.func.id == "map" and len(e.args) == 2 \
            and isinstance(e.args[0], ast.Lambda) and not e.keywords:
        # `map(lambda x: E, xs)` (always consumed by `list(...)` in pams) is `[E for x in xs]`
        lam = e.args[0]
        la = lam.args
        if la.vararg or la.kwarg or la.kwonlyargs or la.defaults or len(la.args) != 1:
            raise Unsupported("lambda with other than one plain parameter")
        return "(.comp %s (.name %s) %s [])" % (expr(lam.body), lstr(la.args[0].arg), expr(e.args[1]))
    if isinstance(e, ast.Call) and isinstance(e.func, ast.Name) and e.func.id == "len" and len(e.args) == 1 \
            and not e.keywords and isinstance(e.args[0], ast.Call) and isinstance(e.args[0].func, ast.Name) \
            and e.args[0].func.id == "set" and len(e.args[0].args) == 1 and not e.args[0].keywords:
        # `len(set(xs))`: the number of distinct items (sets as values are outside the fragment)
        return "(.call (.name \"__len_set\") [%s] [] [])" % expr(e.args[0].args[0])
    if isinstance(e, ast.Call) and isinstance(e.func, ast.Attribute) and isinstance(e.func.value, ast.Call) \
            and isinstance(e.func.value.func, ast.Name) and e.func.value.func.id == "super" and not e.func.value.args:
        # `super().m(args)` inside class C: the definition of `m` in the nearest ancestor of C that has one,
        # called as a plain function with `self` first
        owner = super_owner(CUR_CLASS[0], e.func.attr)
        for a in e.args:
            if isinstance(a, ast.Starred):
                raise Unsupported("*args in a call")
        return "(.call (.name %s) %s %s %s)" % (lstr("%s.%s" % (owner, e.func.attr)),
                                                llist(["(.name \"self\")"] + [expr(a) for a in e.args]),
                                                llist([lstr(k.arg) for k in e.keywords]),
                                                llist([expr(k.value) for k in e.keywords]))
    if isinstance(e, ast.Call) and isinstance(e.func, ast.Name) and e.func.id == "dict" and len(e.args) == 1 \
            and len(e.keywords) == 1 and e.keywords[0].arg is None:
        # `dict(pairs, **d)`: the dict of the pairs, updated with the items of `d`
        return "(.call (.name \"__dict_merge\") [%s, %s] [] [])" % (expr(e.args[0]), expr(e.keywords[0].value))
    if isinstance(e, ast.Call) and isinstance(e.func, ast.Name) and e.func.id == "filter" and len(e.args) == 2 \
            and not e.keywords and isinstance(e.args[0], ast.Lambda):
        # `filter(lambda x: C, xs)` (always consumed by a `for` loop in pams, with a predicate that only looks at
        # the element's class) is `[x for x in xs if C]`
        lam = e.args[0]
        la = lam.args
        if la.vararg or la.kwarg or la.kwonlyargs or la.defaults or len(la.args) != 1:
            raise Unsupported("lambda with other than one plain parameter")
        return "(.comp (.name %s) (.name %s) %s %s)" % (lstr(la.args[0].arg), lstr(la.args[0].arg), expr(e.args[1]),
                                                       llist([expr(lam.body)]))
    if isinstance(e, ast.Call) and isinstance(e.func, ast.Name) and e.func.id == "cast" and len(e.args) == 2 \
            and not e.keywords:
        # `typing.cast(T, x)` is `x`; the type expression is not evaluated
        return "(.call (.name \"cast\") [(.cstr %s), %s] [] [])" % (lstr(ast.unparse(e.args[0])), expr(e.args[1]))
    if isinstance(e, ast.Call):
        for a in e.args:
            if isinstance(a, ast.Starred):
                raise Unsupported("*args in a call")
        for k in e.keywords:
            if k.arg is None:
                raise Unsupported("**kwargs in a call")
        return "(.call %s %s %s %s)" % (expr(e.func), llist([expr(a) for a in e.args]),
                                        llist([lstr(k.arg) for k in e.keywords]),
                                        llist([expr(k.value) for k in e.keywords]))
    if isinstance(e, ast.Subscript):
        if isinstance(e.slice, ast.Slice):
            raise Unsupported("slice")
        return "(.sub %s %s)" % (expr(e.value), expr(e.slice))
    if isinstance(e, (ast.List, ast.Tuple)):
        if any(isinstance(x, ast.Starred) for x in e.elts):
            # `[*a, b, *c]` is `list(a) + [b] + list(c)`
            parts, plain = [], []
            for x in e.elts:
                if isinstance(x, ast.Starred):
                    if plain:
                        parts.append("(.lst %s)" % llist(plain))
                        plain = []
                    parts.append("(.call (.name \"list\") [%s] [] [])" % expr(x.value))
                else:
                    plain.append(expr(x))
            if plain:
                parts.append("(.lst %s)" % llist(plain))
            acc = parts[0]
            for q in parts[1:]:
                acc = "(.bin .add %s %s)" % (acc, q)
            return acc
        return "(.lst %s)" % llist([expr(x) for x in e.elts])
    if isinstance(e, ast.ListComp):
        if len(e.generators) != 1 or e.generators[0].is_async:
            raise Unsupported("comprehension with several generators")
        g = e.generators[0]
        return "(.comp %s %s %s %s)" % (expr(e.elt), expr(g.target), expr(g.iter), llist([expr(c) for c in g.ifs]))
    raise Unsupported("expression %s" % type(e).__name__)


def exc_name(e):
    if e is None:
        raise Unsupported("bare raise")
    if isinstance(e, ast.Call):
        e = e.func
    if isinstance(e, ast.Name):
        return e.id
    if isinstance(e, ast.Attribute):
        return e.attr
    raise Unsupported("raise of a computed exception")


def fun_parts(node):
    a = node.args
    if a.kwonlyargs:
        raise Unsupported("keyword-only parameters")
    # `*args` / `**kwargs` that the body never mentions (the `setup(self, settings, *args, **kwargs)`
    # convention) are dropped; a body that uses them is outside the fragment
    extra = {x.arg for x in (a.vararg, a.kwarg) if x is not None}
    if extra:
        for n in ast.walk(node):
            if isinstance(n, ast.Name) and n.id in extra:
                raise Unsupported("*args / **kwargs used in the body")
    params = [x.arg for x in list(a.posonlyargs) + list(a.args)]
    defaults = [None] * (len(params) - len(a.defaults)) + list(a.defaults)
    ds = []
    for d in defaults:
        if d is None:
            ds.append("none")
        else:
            if not isinstance(d, ast.Constant):
                raise Unsupported("non-constant default value")
            ds.append("(some %s)" % expr(d))
    return params, ds


def stmt(s):
    if isinstance(s, ast.Expr):
        if isinstance(s.value, ast.Constant) and isinstance(s.value.value, str):
            return ".pass"  # docstring
        return "(.expr %s)" % expr(s.value)
    if isinstance(s, ast.Assign):
        if len(s.targets) != 1:
            raise Unsupported("multiple assignment targets")
        return "(.assign %s %s)" % (expr(s.targets[0]), expr(s.value))
    if isinstance(s, ast.AnnAssign):
        if s.value is None:
            return ".pass"
        return "(.assign %s %s)" % (expr(s.target), expr(s.value))
    if isinstance(s, ast.AugAssign):
        if type(s.op) not in BINOPS:
            raise Unsupported("augmented operator")
        return "(.aug %s .%s %s)" % (expr(s.target), BINOPS[type(s.op)], expr(s.value))
    if isinstance(s, ast.If):
        return "(.ifs %s %s %s)" % (expr(s.test), block(s.body), block(s.orelse))
    if isinstance(s, ast.Return):
        return "(.ret %s)" % (expr(s.value) if s.value is not None else ".cnone")
    if isinstance(s, ast.Raise):
        return "(.raise %s)" % lstr(exc_name(s.exc))
    if isinstance(s, ast.Assert):
        return "(.assert_ %s)" % expr(s.test)
    if isinstance(s, ast.For):
        if s.orelse:
            raise Unsupported("for-else")
        return "(.for_ %s %s %s)" % (expr(s.target), expr(s.iter), block(s.body))
    if isinstance(s, ast.While):
        if s.orelse:
            raise Unsupported("while-else")
        return "(.while_ %s %s)" % (expr(s.test), block(s.body))
    if isinstance(s, ast.FunctionDef):
        if s.decorator_list:
            raise Unsupported("decorated local function")
        params, ds = fun_parts(s)
        return "(.def_ %s %s %s %s)" % (lstr(s.name), llist([lstr(p) for p in params]), llist(ds),
                                        block(s.body))
    if isinstance(s, ast.Continue):
        return ".continue_"
    if isinstance(s, ast.Break):
        return ".break_"
    if isinstance(s, ast.Pass):
        return ".pass"
    raise Unsupported("statement %s" % type(s).__name__)


def block(ss):
    return llist([stmt(s) for s in ss])


def check_local_defs(node):
    """a local function may only be *called* by name inside its defining function (so that reading
    the caller's frame is what its closure does)"""
    local = {n.name for n in ast.walk(node) if isinstance(n, ast.FunctionDef) and n is not node}
    if not local:
        return
    for n in ast.walk(node):
        if isinstance(n, ast.Name) and n.id in local:
            ok = False
            for c in ast.walk(node):
                if isinstance(c, ast.Call) and c.func is n:
                    ok = True
            if not ok:
                raise Unsupported("local function %s escapes" % n.id)


def find(tree, cls, fn):
    body = tree.body
    if cls is not None:
        for n in body:
            if isinstance(n, ast.ClassDef) and n.name == cls:
                body = n.body
                break
        else:
            return None
    for n in body:
        if isinstance(n, ast.FunctionDef) and n.name == fn:
            return n
    return None


def lean_ident(cls, fn):
    return ("%s_%s" % (cls, fn) if cls else fn).replace("__", "U")


def fundef(node):
    check_local_defs(node)
    params, ds = fun_parts(node)
    is_prop = any(isinstance(d, ast.Name) and d.id == "property" for d in node.decorator_list)
    for d in node.decorator_list:
        if not (isinstance(d, ast.Name) and d.id in ("property", "staticmethod")):
            raise Unsupported("decorator %s" % ast.unparse(d))
    return "{ params := %s,\n    defaults := %s,\n    body := %s,\n    isProperty := %s }" % (
        llist([lstr(p) for p in params]), llist(ds), wrap(block(node.body)), "true" if is_prop else "false")


def wrap(s, width=110):
    return "\n      ".join(textwrap.wrap(s, width=width, break_long_words=False, break_on_hyphens=False))


CUR_CLASS = [None]


def super_owner(cls, method):
    """the nearest proper ancestor of `cls` (by the class statements of pams) that defines `method`"""
    if cls is None:
        raise Unsupported("super() outside a class")
    defs, bases = {}, {}
    for root, _, files in os.walk(os.path.join(REPO, "pams")):
        for f in sorted(files):
            if f.endswith(".py"):
                tree = ast.parse(open(os.path.join(root, f)).read())
                for node in tree.body:
                    if isinstance(node, ast.ClassDef) and node.name not in defs:
                        defs[node.name] = {n.name for n in node.body if isinstance(n, ast.FunctionDef)}
                        bases[node.name] = [b.id if isinstance(b, ast.Name) else b.attr if isinstance(b, ast.Attribute)
                                            else "?" for b in node.bases]
    cur = cls
    while True:
        known = [b for b in bases.get(cur, []) if b in defs]
        if len(known) != 1:
            raise Unsupported("super().%s: no single known base class of %s" % (method, cur))
        cur = known[0]
        if method in defs[cur]:
            return cur


MRO_ROOTS = ("Market", "Order", "Cancel", "Agent", "Log")


def class_mros():
    """class name -> its linearised ancestry (within pams, by base-class *names* in the class statements),
    for every class of pams that descends from one of MRO_ROOTS; single inheritance is assumed and checked"""
    bases = {}
    for root, _, files in os.walk(os.path.join(REPO, "pams")):
        for f in sorted(files):
            if f.endswith(".py"):
                tree = ast.parse(open(os.path.join(root, f)).read())
                for node in tree.body:
                    if isinstance(node, ast.ClassDef):
                        bs = [b.id if isinstance(b, ast.Name) else b.attr if isinstance(b, ast.Attribute) else "?"
                              for b in node.bases]
                        bases.setdefault(node.name, bs)
    out = []
    for c in sorted(bases):
        chain, cur = [c], c
        while cur in bases:
            known = [b for b in bases[cur] if b in bases]
            if len(known) > 1:
                raise Unsupported("multiple inheritance below %s" % cur)
            if not known:
                break
            cur = known[0]
            chain.append(cur)
        if any(x in MRO_ROOTS for x in chain):
            out.append((c, chain))
    return out


def generate(targets=None):
    targets = targets or TARGETS
    trees = {}
    defs, table, status = [], [], {}
    for rel, cls, fn in targets:
        if rel not in trees:
            trees[rel] = ast.parse(open(os.path.join(REPO, rel)).read())
        q = "%s.%s" % (cls, fn) if cls else fn
        ident = lean_ident(cls, fn)
        node = find(trees[rel], cls, fn)
        CUR_CLASS[0] = cls
        try:
            if node is None:
                raise Unsupported("not found in %s" % rel)
            body = fundef(node)
            status[q] = "ok"
        except Unsupported as e:
            status[q] = "untranslatable: %s" % e
            body = ("{ params := [], defaults := [],\n    body := [.expr (.call (.name %s) [] [] [])], isProperty := false }"
                    % lstr("<untranslatable: %s>" % e))
        src = "/-- `%s` of %s -/\ndef %s : FunDef :=\n  %s\n" % (q, rel, ident, body)
        defs.append(src)
        table.append("(%s, %s)" % (lstr(q), ident))
    mro = class_mros()
    mro_text = ("\n/-- the classes of pams whose ancestry matters to `isinstance` in the translated code (markets, orders,\n"
                "agents): class ↦ the class and its ancestors among them, nearest first -/\n"
                "def classMro : List (String × List String) :=\n  [" +
                ",\n   ".join("(%s, %s)" % (lstr(c), llist([lstr(x) for x in m])) for c, m in mro) + "]\n\n"
                "def mroOf (c : String) : List String :=\n"
                "  match classMro.find? (fun e => e.1 == c) with\n  | some e => e.2\n  | none => [c]\n")
    text = ("-- generated by harness/py2lean.py from /repo/pams — do not edit\n"
            "import PamsModel.Py\n\nnamespace PamsGen.Code\nopen Pams.Py\n\n" + "\n".join(defs) +
            "\n/-- the translated program: qualified name ↦ definition -/\ndef prog : List (String × FunDef) :=\n  ["
            + ",\n   ".join(table) + "]\n" + mro_text + "\nend PamsGen.Code\n")
    return text, status


def regenerate():
    from extract import write_if_changed
    text, status = generate()
    changed = write_if_changed(os.path.join(LEAN_DIR, "PamsGen", "Code.lean"), text)
    bad = {k: v for k, v in status.items() if v != "ok"}
    return {"functions": len(status), "untranslatable": bad, "rewritten": changed}


if __name__ == "__main__":
    import json
    print(json.dumps(regenerate(), indent=1))
