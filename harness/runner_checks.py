"""Runner-level correspondence: config generators, tape/trace builders for Driver/Runner.lean,
per-alphabet trace comparison."""
import copy
import json
import math

import common
from common import LeanDriver, b2s, digest, fbits
import impl_runner
from impl_runner import SimRun
from pams.logs.base import CancelLog, ExecutionLog, OrderLog


# --------------------------------------------------------------------------------------------
# configuration generator
# --------------------------------------------------------------------------------------------
def gen_config(rng, profile="plain", opts=None):
    opts = opts or {}
    n_mk = opts.get("n_markets", rng.choice([1, 1, 2, 3]))
    cfg = {"simulation": {"markets": [], "agents": [], "sessions": []}}
    names = []
    for i in range(n_mk):
        nm = "M%d" % i
        names.append(nm)
        cfg[nm] = {"class": "ProbeMarket", "tickSize": rng.choice([0.01, 0.1, 0.5, 1.0, 1e-5]),
                   "marketPrice": rng.choice([300.0, 100.0, 500.0]),
                   "outstandingShares": rng.choice([25000, 1000, 40000]) if not opts.get("equal_shares") else 25000,
                   "fundamentalVolatility": rng.choice([0.0, 0.001, 0.01]),
                   "fundamentalDrift": rng.choice([0.0, 0.0, 0.0001])}
        cfg["simulation"]["markets"].append(nm)
    if opts.get("index", rng.random() < 0.25) and n_mk >= 2:
        cfg["IDX"] = {"class": "ProbeIndexMarket", "tickSize": 0.01, "marketPrice": 300.0,
                      "outstandingShares": 25000, "markets": list(names)}
        for nm in names:
            cfg[nm]["outstandingShares"] = cfg[nm].get("outstandingShares") or 1000
        # an index market must be configured after its components (IndexMarket.setup reads their
        # outstandingShares), so it can only follow them
        cfg["simulation"]["markets"].append("IDX")
        if opts.get("extra_after_index", rng.random() < 0.3):
            cfg["M9"] = dict(cfg[names[0]])
            cfg["simulation"]["markets"].append("M9")
        if opts.get("nested_index", False):
            # an index of an index: the inner index market is a component like any other market (it has a
            # market price of its own and declares outstanding shares)
            if "M9" not in cfg:
                cfg["M9"] = dict(cfg[names[0]])
                cfg["simulation"]["markets"].append("M9")
            cfg["M9"]["outstandingShares"] = cfg["M9"].get("outstandingShares") or 1000
            cfg["IDX2"] = {"class": "ProbeIndexMarket", "tickSize": 0.01, "marketPrice": 280.0,
                           "outstandingShares": 5000, "markets": ["IDX", "M9"] if rng.random() < 0.5 else ["M9", "IDX", names[0]]}
            cfg["simulation"]["markets"].append("IDX2")
    all_mk = list(cfg["simulation"]["markets"])
    n_norm = opts.get("n_normal", rng.choice([0, 1, 3, 5, 8]))
    n_hft = opts.get("n_hft", rng.choice([0, 0, 1, 2, 3]))
    base_agent = {"cashAmount": 10000.0, "assetVolume": 50, "markets": all_mk,
                  "pEmpty": rng.choice([0.0, 0.2, 0.5]), "pCancel": rng.choice([0.0, 0.1, 0.3]),
                  "pMarket": rng.choice([0.0, 0.1, 0.3]), "maxBatch": rng.choice([1, 2, 3]),
                  "aggr": rng.choice([0.005, 0.02, 0.05]), "maxVol": rng.choice([1, 3, 5]),
                  "pSpoof": opts.get("pSpoof", 0.0), "pResubmit": opts.get("pResubmit", 0.0)}
    if n_norm:
        cfg["NA"] = dict(base_agent, **{"class": "ScriptAgent", "numAgents": n_norm})
        cfg["simulation"]["agents"].append("NA")
    if n_hft:
        cfg["HA"] = dict(base_agent, **{"class": "ScriptHFT", "numAgents": n_hft,
                                        "pEmpty": rng.choice([0.0, 0.5, 0.8])})
        cfg["simulation"]["agents"].append("HA")
    if opts.get("fcn", rng.random() < 0.2):
        cfg["FCN"] = {"class": "ProbeFCNAgent", "numAgents": rng.choice([2, 5]), "markets": names,
                      "assetVolume": 50, "cashAmount": 10000, "fundamentalWeight": {"expon": [1.0]},
                      "chartWeight": {"expon": [0.0]}, "noiseWeight": {"expon": [1.0]},
                      "meanReversionTime": {"uniform": [50, 100]}, "noiseScale": 0.001,
                      "timeWindowSize": [100, 200], "orderMargin": [0.0, 0.1]}
        cfg["simulation"]["agents"].append("FCN")
    n_ses = opts.get("n_sessions", rng.choice([1, 2, 2, 3]))
    for k in range(n_ses):
        # a session of zero steps is valid (a switched-off warm-up): its hooks and records still happen
        steps_opt = opts.get("steps", rng.choice([2, 4, 6, 10, 0, 2, 4, 6]))
        ses = {"sessionName": k, "iterationSteps": steps_opt(k) if callable(steps_opt) else steps_opt,
               "withOrderPlacement": rng.random() < 0.85, "withOrderExecution": rng.random() < 0.7,
               "withPrint": rng.random() < 0.7,
               "maxNormalOrders": rng.choice([0, 1, 2, 3, 10]),
               "maxHighFrequencyOrders": rng.choice([0, 1, 2, 5]),
               "highFrequencySubmitRate": rng.choice([0.0, 1.0, 1.0, 0.5, 0.3])}
        if "events" in opts:
            ses["events"] = list(opts["events"](k))
        cfg["simulation"]["sessions"].append(ses)
    for name, e in opts.get("event_defs", {}).items():
        cfg[name] = e
    return cfg


# --------------------------------------------------------------------------------------------
# trace + tape from the recorded log
# --------------------------------------------------------------------------------------------
class Built:
    pass


def build(run):
    """returns Built with .trace (list of strings in the Lean Ev grammar), .lines (tape for the
    driver), .sessions info; only the part after setup is used"""
    rec = run.rec
    sim = run.sim
    log = rec.log
    start = next((i for i, e in enumerate(log) if e[0] == "setup.done"), None)
    b = Built()
    b.trace = []
    b.lines = []
    b.ok = start is not None
    if start is None:
        return b
    log = log[start + 1:]
    sessions = sim.sessions
    ses_cfg = run.session_cfgs
    markets = [(m.market_id, isinstance(m, impl_runner.IndexMarket)) for m in sim.markets]
    orderlog_ref = {}
    cancellog_ref = {}
    tr = b.trace
    # tapes
    steps = []        # dicts
    cur = None
    cur_round = None
    cur_req = None    # the request being processed (dict from consult)
    req_by_ref = {}
    req_queue = {}       # ref -> request dicts in consult order (an object may be submitted twice)

    def start_req(ref):
        q = req_queue.get(ref, [])
        for r in q:
            if not r.get("started"):
                r["started"] = True
                req_by_ref[ref] = r
                return r
        return req_by_ref.get(ref)
    phase = None
    cur_session = -1
    # closed-loop extras (tape of the Sim model): what handlers did to the execution switches at
    # the two hook sites where the model admits it, the fundamentals recorded at clock steps
    in_hook = None          # ("exec", fill dict) | ("step", market id) while inside such a dispatch
    fund_pre = None
    b.fund0 = {}
    b.unsupported = []      # reasons why the closed-loop model does not apply to this run
    n_mk = len(markets)
    begin_seen = 0
    pending_samples = 0
    for ev in log:
        k = ev[0]
        if k == "log.write":
            key = ev[1]
            if key[0] in ("simBegin", "simEnd"):
                tr.append(key[0])
            elif key[0] in ("sessionBegin", "sessionEnd"):
                tr.append("%s %d" % (key[0], key[1]))
        elif k == "log.flush":
            tr.append("flush")
        elif k == "log.direct":
            key = ev[1]
            if key[0] in ("stepBegin", "stepEnd"):
                tr.append("%s %d %d" % (key[0], key[1], key[2]))
        elif k == "tick":
            tr.append("tick %d" % ev[1])
            if cur is None:
                b.fund0[ev[1]] = ev[3]
            else:
                cur.setdefault("fund", {})[ev[1]] = ev[3]
        elif k == "setRunning":
            if ev[3] == 0:
                tr.append("setRunning %d %s" % (ev[1], b2s(ev[2])))
            elif in_hook is not None and in_hook[0] == "exec":
                in_hook[1].setdefault("writes", []).append((ev[1], ev[2]))
            elif in_hook is not None and in_hook[0] == "step" and cur is not None:
                cur.setdefault("resfx", {}).setdefault(in_hook[1], {"flag": False, "writes": []})["writes"].append((ev[1], ev[2]))
            else:
                b.unsupported.append("running switch written inside another hook")
        elif k == "hook":
            typ = ev[1]
            if typ == "session_before":
                cur_session = ev[2]
                tr.append("hookSessionBefore %d %d" % (ev[2], ev[3]))
            elif typ == "session_after":
                tr.append("hookSessionAfter %d %d" % (ev[2], ev[3]))
            elif typ == "market_before":
                if cur is None or cur.get("closed"):
                    cur = {"session": cur_session, "res": [], "perm": None, "ans": [], "shuf": None,
                           "rounds": [], "closed": False, "nsample": 0}
                    steps.append(cur)
                    cur_round = None
                tr.append("hookStepBefore %d %d" % (ev[2], ev[3]))
                in_hook = ("step", ev[2])
            elif typ == "market_after":
                if cur is not None:
                    cur["closed"] = True
                tr.append("hookStepAfter %d %d" % (ev[2], ev[3]))
            elif typ == "order_before":
                tr.append("hookOrderBefore %d %d" % (ev[2], ev[3]))
                cur_req = start_req(ev[2])
            elif typ == "order_after":
                tr.append("hookOrderAfter %d %d" % (orderlog_ref.get(id(ev[2]), -1), ev[3]))
            elif typ == "cancel_before":
                tr.append("hookCancelBefore %d %d" % (ev[2], ev[3]))
                cur_req = start_req(ev[2])
            elif typ == "cancel_after":
                tr.append("hookCancelAfter %d %d" % (cancellog_ref.get(id(ev[2]), -1), ev[3]))
            elif typ == "execution_after":
                tr.append("hookExecAfter %d %d" % (ev[2], ev[3]))
                fd = None
                if cur_req is not None:
                    fd = next((f for f in cur_req.get("fills", []) if f["ref"] == ev[2]), None)
                in_hook = ("exec", fd if fd is not None else {})
        elif k == "fund.pre":
            fund_pre = ev
        elif k == "fund.post":
            if fund_pre is not None and cur is not None:
                for mk_id, v in ev[3].items():
                    if fund_pre[3].get(mk_id) != v:
                        cur.setdefault("resfx", {}).setdefault(ev[1], {"flag": False, "writes": []}).setdefault("fund", []).append((mk_id, v))
            fund_pre = None
        elif k == "hookret":
            in_hook = None
            if ev[1] == "market_before":
                before, after = ev[3], ev[4]
                if (not before[0]) and after[0] and cur is not None:
                    cur["res"].append(ev[2])
                    cur.setdefault("resfx", {}).setdefault(ev[2], {"flag": False, "writes": []})["flag"] = True
                if before[0] and not after[0]:
                    b.unsupported.append("execution flag switched off by a before-step handler")
            elif ev[1] == "execution_after":
                before, after = ev[3], ev[4]
                if before[0] and not after[0] and cur_req is not None and cur_req.get("fills"):
                    for f in cur_req["fills"]:
                        if f["ref"] == ev[2]:
                            f["halts"] = True
        elif k == "consult":
            tr.append("consult %d %s" % (ev[1], b2s(ev[2])))
            reqs = [dict(r, accepted=False, fills=[], fills_none=False, called_exec=False) for r in ev[3]]
            for r in reqs:
                req_queue.setdefault(r["ref"], []).append(r)
            if cur is not None:
                if ev[2]:
                    if cur_round is not None:
                        cur_round["ans"].append((ev[1], reqs))
                else:
                    cur["ans"].append((ev[1], reqs))
        elif k == "draw.sample":
            if cur is not None and not cur.get("closed"):
                pop, res = ev[1], ev[2]
                if cur["perm"] is None:
                    cur["perm"] = [a.agent_id for a in res]
                elif cur["shuf"] is None:
                    idx = []
                    for x in res:
                        idx.append(next(i for i, y in enumerate(pop) if y is x))
                    cur["shuf"] = idx
                elif cur_round is not None and cur_round["perm"] is None:
                    cur_round["perm"] = [a.agent_id for a in res]
        elif k == "draw.u":
            if cur is not None and not cur.get("closed"):
                cur_round = {"u": ev[1], "perm": None, "ans": []}
                cur["rounds"].append(cur_round)
        elif k == "call.add":
            tr.append("addOrder %d %d" % (ev[1], ev[2]))
            cur_req = req_by_ref.get(ev[2], cur_req)
            if cur_req is not None:
                cur_req["call"] = ev[4]
                cur_req["call_market"] = ev[1]
        elif k == "ret.add":
            orderlog_ref[id(ev[3])] = ev[2]
            if ev[2] in req_by_ref:
                req_by_ref[ev[2]]["accepted"] = True
        elif k == "call.cancel":
            tr.append("cancel %d %d" % (ev[1], ev[2]))
            cur_req = req_by_ref.get(ev[2], cur_req)
            if cur_req is not None and len(ev) > 4:
                cur_req["call"] = ev[4]
                cur_req["call_market"] = ev[1]
        elif k == "ret.cancel":
            cancellog_ref[id(ev[3])] = ev[2]
            if ev[2] in req_by_ref:
                req_by_ref[ev[2]]["accepted"] = True
        elif k == "cb":
            kind, lg = ev[2], ev[3]
            if kind == "submitted":
                tr.append("cbSubmitted %d %d" % (ev[1], orderlog_ref.get(id(lg), -1)))
            elif kind == "canceled":
                tr.append("cbCanceled %d %d" % (ev[1], cancellog_ref.get(id(lg), -1)))
            else:
                tr.append("cbExecuted %d %d" % (ev[1], rec.fill_refs.get(id(lg), -1)))
        elif k == "call.exec":
            tr.append("execution %d" % ev[1])
            if cur_req is not None:
                cur_req["called_exec"] = True
                cur_req["fills_none"] = True
        elif k == "ret.exec":
            if cur_req is not None:
                cur_req["fills_none"] = False
                cur_req["fills"] = [{"buyer": l.buy_agent_id, "seller": l.sell_agent_id,
                                     "ref": rec.fill_ref(l), "halts": False} for l in ev[2]]
        elif k == "ledger":
            tr.append("ledger" + "".join(" %d" % r for r in ev[1]))
        elif k == "abort":
            tr.append("abort")
    # lines
    L = b.lines
    L.append("CASE 0")
    L.append("MK %d %s" % (len(markets), " ".join("%d %s" % (i, b2s(x)) for i, x in markets)))
    for s in ses_cfg:
        L.append("SES %d %s %s %d %d %s" % (s["steps"], b2s(s["placement"]), b2s(s["execution"]),
                                            s["maxNormal"], s["maxHft"], fbits(s["rate"])))

    def req_tokens(r):
        t = [r["owner"], r["market"], b2s(r["cancel"]), r["ref"], b2s(r["accepted"])]
        if r["fills_none"]:
            t += [0, 0]
        else:
            t += [1, len(r["fills"])]
            for f in r["fills"]:
                t += [f["buyer"], f["seller"], f["ref"], b2s(f["halts"])]
        return " ".join(str(x) for x in t)
    for s in steps:
        L.append("STEP %d" % s["session"])
        L.append("RES %d %s" % (len(s["res"]), " ".join(map(str, s["res"]))))
        perm = s["perm"] or []
        L.append("PERM %d %s" % (len(perm), " ".join(map(str, perm))))
        for a, reqs in s["ans"]:
            L.append("ANS %d %d %s" % (a, len(reqs), " ".join(req_tokens(r) for r in reqs)))
        shuf = s["shuf"] or []
        L.append("SHUF %d %s" % (len(shuf), " ".join(map(str, shuf))))
        for r in s["rounds"]:
            perm = r["perm"] or []
            L.append("ROUND %s %d %s" % (fbits(r["u"]), len(perm), " ".join(map(str, perm))))
            for a, reqs in r["ans"]:
                L.append("ANSH %d %d %s" % (a, len(reqs), " ".join(req_tokens(r2) for r2 in reqs)))
        L.append("ENDSTEP")
    L.append("RUN")
    b.steps = steps
    b.markets = markets
    return b


def run_sim(config, seed, **kw):
    """runs one instrumented simulation, capturing session configs after setup"""
    run = SimRun(config, seed, **kw)
    # capture session configuration right after setup through a tiny hook on the recorder
    orig_setup_done = None
    run.session_cfgs = []
    import pams.runners.sequential as seq
    real_setup = seq.SequentialRunner._setup

    def patched_setup(self):
        real_setup(self)
        run.session_cfgs = [{"steps": s.iteration_steps, "placement": s.with_order_placement,
                             "execution": s.with_order_execution, "maxNormal": s.max_normal_orders,
                             "maxHft": s.max_high_frequency_orders,
                             "rate": s.high_frequency_submission_rate,
                             "start": s.session_start_time, "id": s.session_id} for s in self.simulator.sessions]
        # the session rules are the *configured* ones: where the configuration states a parameter, the model and
        # the monitors use that value, and a session object that parsed it differently is reported
        run.session_parse_mismatch = []
        keymap = {"iterationSteps": "steps", "withOrderPlacement": "placement", "withOrderExecution": "execution",
                  "maxNormalOrders": "maxNormal", "maxHighFrequencyOrders": "maxHft", "highFrequencySubmitRate": "rate"}
        start = 0
        for k, (sc, parsed) in enumerate(zip(config["simulation"]["sessions"], run.session_cfgs)):
            if not isinstance(sc, dict) or "extends" in sc:
                continue
            for key, name in keymap.items():
                if key in sc and sc[key] is not None and parsed[name] != sc[key]:
                    run.session_parse_mismatch.append({"session": k, "key": key, "configured": sc[key], "parsed": parsed[name]})
                    parsed[name] = sc[key]
            if parsed["start"] != start:
                run.session_parse_mismatch.append({"session": k, "key": "start", "configured": start, "parsed": parsed["start"]})
            start += sc.get("iterationSteps", parsed["steps"])
    seq.SequentialRunner._setup = patched_setup
    try:
        run.run()
    finally:
        seq.SequentialRunner._setup = real_setup
    return run


ALPHABETS = {
    "sched": ("consult", "addOrder", "cancel", "execution", "abort", "setRunning", "stepBegin", "sessionBegin", "sessionEnd"),
    "callbacks": ("addOrder", "cancel", "execution", "ledger", "cbSubmitted", "cbCanceled", "cbExecuted", "abort"),
    "ledger": ("execution", "ledger", "cbExecuted", "abort"),
    "clock": ("tick", "stepBegin", "stepEnd", "sessionBegin", "sessionEnd", "simBegin", "simEnd", "abort"),
    "hooks": ("hookSessionBefore", "hookSessionAfter", "hookStepBefore", "hookStepAfter", "hookOrderBefore",
              "hookOrderAfter", "hookCancelBefore", "hookCancelAfter", "hookExecAfter", "addOrder", "cancel",
              "execution", "stepBegin", "stepEnd", "sessionBegin", "sessionEnd", "abort"),
    "logs": ("simBegin", "simEnd", "sessionBegin", "sessionEnd", "stepBegin", "stepEnd", "flush", "abort"),
    "all": None,
}


def project(trace, alphabet):
    if alphabet is None:
        return list(trace)
    return [t for t in trace if t.split(" ", 1)[0] in alphabet]


def first_diff(a, b):
    for i, (x, y) in enumerate(zip(a, b)):
        if x != y:
            return i, x, y
    if len(a) != len(b):
        i = min(len(a), len(b))
        return i, (a[i] if i < len(a) else "<end>"), (b[i] if i < len(b) else "<end>")
    return None


def model_traces(builts):
    """runs the Lean runner model on all tapes at once; returns list of model traces"""
    lines = []
    for b in builts:
        assert b.lines, "build() produced no tape (setup failed?)"
        lines.extend(b.lines)
    out, err, dt = LeanDriver("Runner").run(lines)
    if out is None:
        return None, err
    traces = []
    cur = []
    errs = []
    for l in out:
        if l.startswith("M "):
            cur.append(l[2:])
        elif l == "ENDCASE":
            traces.append(cur)
            cur = []
        elif l.startswith("E "):
            errs.append(l)
    return traces, "\n".join(errs)
