"""In-process driver of the real `pams.market.Market` for market-level histories, state
abstraction, history generators and the line emitter for `Driver/Market.lean`."""
import heapq
import math

from common import b2s, fkey, opt

import pams.market as pm
from pams.logs.base import (CancelLog, ExecutionLog, ExpirationLog, Logger, OrderLog)
from pams.logs.market_step_loggers import MarketStepPrintLogger, MarketStepSaver
from pams.order import LIMIT_ORDER, MARKET_ORDER, Cancel, Order


class _RecMixin:
    """records what reaches write / bulk_write (pending) in order"""

    def __init__(self):
        super().__init__()
        self.seen = []

    def write(self, log):
        self.seen.append(("write", log))
        super().write(log)

    def bulk_write(self, logs):
        for l in logs:
            self.seen.append(("bulk", l))
        super().bulk_write(logs)


class RecLogger(_RecMixin, Logger):
    pass


class RecSaver(_RecMixin, MarketStepSaver):
    """the recorder on top of pams' own MarketStepSaver (the subclassing pattern of the examples)"""


class RecPrinter(_RecMixin, MarketStepPrintLogger):
    pass


LOGGER_CLASSES = {"Logger": RecLogger, "MarketStepSaver": RecSaver, "MarketStepPrintLogger": RecPrinter}


class _Fund:
    def __init__(self):
        self.prices = {}
        self._generated_until = 0


class _Sim:
    def __init__(self):
        self.fundamentals = _Fund()


def order_fields(o):
    return {"id": o.order_id, "agent": o.agent_id, "buy": o.is_buy, "price": o.price,
            "vol": o.volume, "placed": o.placed_at, "ttl": o.ttl}


def pop_order(pq):
    """orders in the order the matching engine would pop them (real comparisons)"""
    h = list(pq)
    out = []
    while h:
        out.append(heapq.heappop(h))
    return out


def log_fields(l):
    if isinstance(l, OrderLog):
        return ("order", l.order_id, l.time, l.agent_id, l.is_buy, l.price, l.volume, l.ttl,
                l.market_id, l.kind.name)
    if isinstance(l, CancelLog):
        return ("cancel", l.order_id, l.cancel_time, l.order_time, l.agent_id, l.is_buy, l.price,
                l.volume, l.ttl, l.market_id, l.kind.name)
    if isinstance(l, ExpirationLog):
        return ("expiry", l.order_id, l.time, l.order_time, l.agent_id, l.is_buy, l.price,
                l.volume, l.ttl, l.market_id, l.kind.name)
    if isinstance(l, ExecutionLog):
        return ("fill", l.time, l.buy_agent_id, l.sell_agent_id, l.buy_order_id, l.sell_order_id,
                l.price, l.volume, l.market_id)
    return (type(l).__name__,)


class MarketRun:
    """executes one history on a fresh real market and records everything"""

    def __init__(self, cfg, market_class=None):
        self.cfg = cfg
        self.logger = LOGGER_CLASSES[cfg.get("logger", "Logger")]()
        cls = market_class or pm.Market
        self.m = cls(market_id=cfg.get("market_id", 0), prng=None, simulator=_Sim(),
                     name="M", logger=self.logger)
        self.m.setup({"tickSize": cfg["tick"], "marketPrice": cfg["price"]})
        self.m.simulator.fundamentals.prices[self.m.market_id] = [cfg.get("fund0", cfg["price"])] * 4096
        self.m._update_time(next_fundamental_price=cfg.get("fund0", cfg["price"]))
        self.orders = []      # accepted Order objects by order_id
        self.submitted = []   # every Order object handed to _add_order (for resubmission)
        self.steps = []
        self.lines = []
        self.snapshots = []   # (time, series prefix) for C06

    # ---- state abstraction -------------------------------------------------------------
    def slot(self, t):
        m = self.m
        return {"market": m._market_prices[t], "last": m._last_executed_prices[t],
                "mid": m._mid_prices[t], "fund": m._fundamental_prices[t],
                "execVol": m._executed_volumes[t], "turnover": m._executed_total_prices[t],
                "nBuy": m._n_buy_orders[t], "nSell": m._n_sell_orders[t]}

    def state(self):
        m = self.m
        buys = pop_order(m.buy_order_book.priority_queue)
        sells = pop_order(m.sell_order_book.priority_queue)
        resting = {id(o) for o in buys} | {id(o) for o in sells}
        gone = []
        for o in self.orders:
            if id(o) not in resting:
                reason = 1 if o.is_canceled else (0 if o.volume == 0 else 2)
                gone.append((order_fields(o), reason))
        st = {"time": m.time, "running": m.is_running, "nextId": m._next_order_id,
              "buys": [order_fields(o) for o in buys], "sells": [order_fields(o) for o in sells],
              "gone": gone, "cur": self.slot(m.time),
              "past": self.slot(m.time - 1) if m.time > 0 else None,
              "past_all": [self.slot(t) for t in range(m.time - 1, -1, -1)],
              "heapTopBuy": (m.buy_order_book.priority_queue[0].order_id
                             if m.buy_order_book.priority_queue else None),
              "heapTopSell": (m.sell_order_book.priority_queue[0].order_id
                              if m.sell_order_book.priority_queue else None)}
        return st

    @staticmethod
    def order_tokens(o):
        return [str(o["id"]), str(o["agent"]), b2s(o["buy"]), fkey(o["price"]), str(o["vol"]),
                str(o["placed"]), opt(o["ttl"])]

    @staticmethod
    def slot_tokens(s):
        return [fkey(s["market"]), fkey(s["last"]), fkey(s["mid"]), fkey(s["fund"]),
                str(s["execVol"]), fkey(float(s["turnover"])), str(s["nBuy"]), str(s["nSell"])]

    def state_line(self, st):
        t = ["S", str(st["time"]), b2s(st["running"]), str(st["nextId"]), str(len(st["buys"]))]
        for o in st["buys"]:
            t += self.order_tokens(o)
        t.append(str(len(st["sells"])))
        for o in st["sells"]:
            t += self.order_tokens(o)
        t.append(str(len(st["gone"])))
        for o, r in st["gone"]:
            t += self.order_tokens(o) + [str(r)]
        t += self.slot_tokens(st["cur"])
        t.append(str(len(st["past_all"])))
        for sl in st["past_all"]:
            t += self.slot_tokens(sl)
        return " ".join(t)

    # ---- executing ops -------------------------------------------------------------------
    def run(self, ops, emit=True, extras=True):
        m = self.m
        self.lines.append("CASE 0")
        for i, op in enumerate(ops):
            pre = self.state()
            # an observer (any agent) reads the book between operations through the public getters;
            # these reads are part of every history, whether or not the model is being compared
            if emit:
                self.lines.append(self.state_line(pre))
            if extras:
                pred = m.remain_executable_orders()
                depths = [(isbuy, book.get_price_volume())
                          for isbuy, book in ((True, m.buy_order_book), (False, m.sell_order_book))]
                if emit:
                    self.lines.append("P " + b2s(pred))
                    for isbuy, d in depths:
                        self.lines.append("D %s %d %s" % (b2s(isbuy), len(d), " ".join(
                            "%s:%d" % (fkey(k), v) for k, v in d.items())))
            nseen = len(self.logger.seen)
            step = {"i": i, "op": op, "pre": pre}
            kind = op["op"]
            try:
                if kind == "add":
                    if "resubmit" in op:
                        o = self.submitted[op["resubmit"] % len(self.submitted)] if self.submitted else None
                        if o is None:
                            o = Order(agent_id=0, market_id=m.market_id, is_buy=True,
                                      kind=MARKET_ORDER, volume=1)
                    else:
                        # a time-to-live of 0 ("this step only") cannot be given to the constructor, but an
                        # order-before hook can write it (OrderMistakeShock with orderTimeLength 0 does)
                        o = Order(agent_id=op["agent"], market_id=op.get("market", m.market_id),
                                  is_buy=op["buy"],
                                  kind=MARKET_ORDER if op["price"] is None else LIMIT_ORDER,
                                  volume=op["vol"], price=op["price"], ttl=1 if op["ttl"] == 0 else op["ttl"])
                        if op["ttl"] == 0:
                            o.ttl = 0
                    raw = o.price
                    stamped = o.placed_at is not None or o.order_id is not None
                    mkt_ok = o.market_id == m.market_id
                    step["submitted"] = {"agent": o.agent_id, "buy": o.is_buy, "price": raw,
                                         "vol": o.volume, "ttl": o.ttl, "stamped": stamped,
                                         "mkt_ok": mkt_ok}
                    self.submitted.append(o)
                    try:
                        log = m._add_order(o)
                        self.orders.append(o)
                        step["result"] = log_fields(log)
                        res = "R add %d %d %d %s %s %d %s" % (
                            log.order_id, log.time, log.agent_id, b2s(log.is_buy), fkey(log.price),
                            log.volume, opt(log.ttl))
                        snapped = log.price
                    except ValueError as e:
                        step["result"] = ("err", "ValueError", str(e))
                        res = "R err " + ("wrongMarket" if "not for this market" in str(e)
                                          else "alreadySubmitted")
                        snapped = raw
                    if emit:
                        self.lines.append("O add %s %s %d %s %s %s %d %s" % (
                            b2s(mkt_ok), b2s(stamped), o.agent_id, b2s(o.is_buy), fkey(raw),
                            fkey(snapped), step["submitted"]["vol"], opt(o.ttl)))
                        self.lines.append(res)
                elif kind == "cancel":
                    if not self.orders:
                        step["result"] = ("skip",)
                    else:
                        o = self.orders[op["ref"] % len(self.orders)]
                        step["target"] = order_fields(o)
                        if emit:
                            self.lines.append("O cancel %d" % o.order_id)
                        log = m._cancel_order(Cancel(order=o))
                        step["result"] = log_fields(log)
                        if emit:
                            self.lines.append("R cancel %d %d %d %d %s %s %d %s" % (
                                log.order_id, log.cancel_time, log.order_time, log.agent_id,
                                b2s(log.is_buy), fkey(log.price), log.volume, opt(log.ttl)))
                elif kind == "exec":
                    if emit:
                        self.lines.append("O exec")
                    try:
                        logs = m._execution()
                        step["result"] = ("fills", [log_fields(l) for l in logs])
                        if emit:
                            self.lines.append("R exec %d%s" % (len(logs), "".join(
                                " %d %d %d %d %d %s %d" % (l.time, l.buy_agent_id, l.sell_agent_id,
                                                           l.buy_order_id, l.sell_order_id,
                                                           fkey(l.price), l.volume) for l in logs)))
                    except AssertionError as e:
                        step["result"] = ("err", "AssertionError", str(e))
                        if emit:
                            self.lines.append("R err " + ("notRunning" if "not running" in str(e)
                                                          else "assertion"))
                elif kind == "tick":
                    if emit:
                        self.lines.append("O tick %s" % fkey(op["fund"]))
                    m._update_time(next_fundamental_price=op["fund"])
                    logs = [l for k, l in self.logger.seen[nseen:] if isinstance(l, ExpirationLog)]
                    step["result"] = ("expiries", [log_fields(l) for l in logs])
                    if emit:
                        logs = sorted(logs, key=lambda l: l.order_id)
                        self.lines.append("R tick %d%s" % (len(logs), "".join(
                            " %d %d %d %d %s %s %d %s" % (l.order_id, l.time, l.order_time,
                                                          l.agent_id, b2s(l.is_buy), fkey(l.price),
                                                          l.volume, opt(l.ttl)) for l in logs)))
                elif kind == "jump":
                    if emit:
                        self.lines.append("O jump %d %s" % (op["k"], fkey(op["fund"])))
                    m._set_time(m.time + op["k"], op["fund"])
                    logs = [l for k, l in self.logger.seen[nseen:] if isinstance(l, ExpirationLog)]
                    step["result"] = ("expiries", [log_fields(l) for l in logs])
                    if emit:
                        logs = sorted(logs, key=lambda l: l.order_id)
                        self.lines.append("R tick %d%s" % (len(logs), "".join(
                            " %d %d %d %d %s %s %d %s" % (l.order_id, l.time, l.order_time,
                                                          l.agent_id, b2s(l.is_buy), fkey(l.price),
                                                          l.volume, opt(l.ttl)) for l in logs)))
                elif kind == "run":
                    if emit:
                        self.lines.append("O run %s" % b2s(op["on"]))
                        self.lines.append("R run")
                    m._is_running = op["on"]
                    step["result"] = ("run",)
                elif kind == "cmp":
                    pool = [o for o in self.orders if o.is_buy == op["buy"]]
                    step["result"] = ("cmp", [])
                    if len(pool) >= 2:
                        for (x, y) in op["pairs"]:
                            a = pool[x % len(pool)]
                            b = pool[y % len(pool)]
                            r = (a < b, a > b, a == b, a <= b, a >= b)
                            step["result"][1].append((order_fields(a), order_fields(b), r))
                            if emit:
                                self.lines.append("C %s %s %s" % (
                                    " ".join(self.order_tokens(order_fields(a))),
                                    " ".join(self.order_tokens(order_fields(b))),
                                    " ".join(b2s(v) for v in r)))
                else:
                    raise RuntimeError("unknown op " + kind)
            except Exception as e:  # any other escape is recorded, never hidden
                step["result"] = ("err", type(e).__name__, str(e))
                step["unexpected"] = True
                if emit:
                    self.lines.append("R err unexpected:" + type(e).__name__)
            step["logger"] = [(k, log_fields(l)) for k, l in self.logger.seen[nseen:]]
            step["post_time"] = m.time
            # C06 probes: future refused, prefix snapshot
            step["future"] = self.probe_future()
            self.steps.append(step)
            self.snapshots.append((m.time, self.series_prefix()))
        final = self.state()
        if emit:
            self.lines.append(self.state_line(final))
        self.final = final
        return self

    def probe_future(self):
        m = self.m
        t = m.time + 1
        out = {}
        for name in ("get_market_price", "get_mid_price", "get_last_executed_price",
                     "get_fundamental_price", "get_executed_volume", "get_executed_total_price",
                     "get_n_buy_order", "get_n_sell_order", "get_vwap"):
            try:
                getattr(m, name)(t)
                out[name] = "returned"
            except AssertionError:
                out[name] = "refused"
            except Exception as e:
                out[name] = "other:" + type(e).__name__
        for name in ("get_market_prices", "get_mid_prices", "get_last_executed_prices",
                     "get_fundamental_prices", "get_executed_volumes", "get_executed_total_prices",
                     "get_n_buy_orders", "get_n_sell_orders"):
            # windows that reach into the future, in every shape an agent may pass: ascending and
            # descending (latest-first) ranges, lists with the future time first / last / in the middle
            lo = max(t - 3, 0)
            shapes = {"": range(t - 1, t + 1) if t >= 1 else range(0, t + 1),
                      "[desc-range]": range(t, lo - 1, -1), "[desc-range+1]": range(t + 1, lo - 1, -1),
                      "[list-future-first]": [t, lo], "[list-future-last]": [lo, t],
                      "[list-future-middle]": [lo, t, lo], "[tuple]": (t,), "[step-range]": range(lo, t + 2, 2) if (t + 1 - lo) % 2 == 0 else range(lo, t + 1, 1)}
            for tag, times in shapes.items():
                try:
                    getattr(m, name)(times)
                    out[name + tag] = "returned"
                except AssertionError:
                    out[name + tag] = "refused"
                except Exception as e:
                    out[name + tag] = "other:" + type(e).__name__
        return out

    def series_prefix(self):
        m = self.m
        n = m.time  # strictly past slots
        return (tuple(m._market_prices[:n]), tuple(m._mid_prices[:n]),
                tuple(m._last_executed_prices[:n]), tuple(m._fundamental_prices[:n]),
                tuple(m._executed_volumes[:n]), tuple(m._executed_total_prices[:n]),
                tuple(m._n_buy_orders[:n]), tuple(m._n_sell_orders[:n]))


# ---------------------------------------------------------------------------------------------
# generators
# ---------------------------------------------------------------------------------------------

def gen_history(rng, n_ops, profile=None):
    """one structured, mostly valid history.  All choices from `rng`."""
    profile = profile or rng.choice(["continuous", "continuous", "batch", "mixed", "marketheavy",
                                     "deep", "expiry", "sweep", "sweep", "sweep", "mkt2", "long"])
    if profile == "sweep":
        return gen_sweep(rng, n_ops)
    if profile == "long":
        return gen_long(rng)
    if profile == "mkt2":
        return gen_mkt2(rng, n_ops)
    tick = rng.choice([1.0, 1.0, 0.5, 0.25, 0.1, 0.01, 10.0])
    base = rng.choice([100.0, 300.0, 50.0, 1000.0])
    if rng.random() < 0.12:
        # fine grid: more than 1e9 ticks per price, so neighbouring price levels differ by less than
        # 1e-9 relative (still exactly representable doubles)
        tick, base = rng.choice([(1.0, 3e9), (1.0, 4e12), (0.01, 2.5e7), (0.5, 1e10)])
    elif rng.random() < 0.12:
        # next to zero: bids below one tick are rounded down to the (valid) limit price 0.0
        base = rng.choice([1, 2, 3]) * tick
    cfg = {"tick": tick, "price": base, "fund0": base, "profile": profile,
           "logger": rng.choice(["Logger", "Logger", "MarketStepSaver", "MarketStepPrintLogger"])}
    n_levels = rng.choice([2, 3, 5, 8])
    p_market = {"marketheavy": 0.4, "continuous": 0.1, "batch": 0.15, "mixed": 0.2, "deep": 0.05,
                "expiry": 0.1}[profile]
    p_offgrid = rng.choice([0.0, 0.1, 0.3])
    ops = []
    running = profile in ("continuous", "marketheavy", "deep", "expiry") or rng.random() < 0.5
    ops.append({"op": "run", "on": running})
    n_orders = 0
    fund = base
    max_vol = rng.choice([1, 3, 5, 9])
    while len(ops) < n_ops:
        r = rng.random()
        if r < 0.55:
            buy = rng.random() < 0.5
            if rng.random() < p_market:
                price = None
            else:
                lvl = rng.randint(-n_levels, n_levels)
                if profile == "deep":
                    # keep book uncrossed mostly, then occasionally sweep
                    if rng.random() < 0.8:
                        lvl = -abs(lvl) - 1 if buy else abs(lvl) + 1
                price = base + lvl * tick
                if rng.random() < p_offgrid:
                    price += rng.choice([0.3, 0.5, 0.77, 0.001]) * tick
                if price <= 0:
                    price = rng.choice([tick, 0.4 * tick, 0.3 * tick])
            ttl = rng.choice([None, None, 1, 2, 3, 5, 0]) if profile != "expiry" else rng.choice([1, 1, 2, 3, None, 0])
            ops.append({"op": "add", "agent": rng.randint(0, 4), "buy": buy, "price": price,
                        "vol": rng.randint(1, max_vol), "ttl": ttl})
            n_orders += 1
            if running and (profile != "mixed" or rng.random() < 0.8):
                ops.append({"op": "exec"})
        elif r < 0.70 and n_orders > 0:
            # cancel: bias to recent orders, sometimes any (filled / expired / cancelled ones)
            ref = rng.randint(max(0, n_orders - 6), n_orders - 1) if rng.random() < 0.7 else rng.randint(0, n_orders - 1)
            ops.append({"op": "cancel", "ref": ref})
            if running:
                ops.append({"op": "exec"})
        elif r < 0.85:
            fund = fund * math.exp(rng.gauss(0, 0.01))
            if rng.random() < 0.08:
                ops.append({"op": "jump", "k": rng.choice([1, 2, 3, 5]), "fund": fund})
            else:
                ops.append({"op": "tick", "fund": fund})
        elif r < 0.90:
            if profile in ("batch", "mixed") or rng.random() < 0.3:
                running = not running
                ops.append({"op": "run", "on": running})
                if running:
                    ops.append({"op": "exec"})
        elif r < 0.94:
            ops.append({"op": "exec"})
        elif r < 0.97 and n_orders >= 2:
            ops.append({"op": "cmp", "buy": rng.random() < 0.5,
                        "pairs": [(rng.randint(0, 50), rng.randint(0, 50)) for _ in range(4)]})
        elif r < 0.985:
            # malformed stream: resubmission / foreign market
            if rng.random() < 0.5 and n_orders > 0:
                ops.append({"op": "add", "resubmit": rng.randint(0, 1000)})
            else:
                ops.append({"op": "add", "agent": 0, "buy": True, "price": base, "vol": 1,
                            "ttl": None, "market": 7})
    return cfg, ops


def gen_long(rng):
    """a long, sparse history that crosses the 100- and (sometimes) 200-step storage chunks of the
    per-step series: per step at most a couple of orders with unbalanced buy / sell counts, a round
    now and then, an occasional cancel or clock jump"""
    tick = rng.choice([1.0, 0.5])
    base = rng.choice([100.0, 300.0])
    cfg = {"tick": tick, "price": base, "fund0": base, "profile": "long"}
    ops = [{"op": "run", "on": True}]
    n = 0
    fund = base
    n_ticks = rng.choice([103, 110, 204])
    t = 0
    while t < n_ticks:
        if rng.random() < (0.5 if t < 12 or t % 100 > 95 else 0.06):
            for _ in range(rng.randint(1, 3)):
                buy = rng.random() < rng.choice([0.2, 0.8])
                lvl = rng.randint(0, 3)
                price = None if rng.random() < 0.1 else base + (lvl if rng.random() < 0.3 else -lvl - 1) * tick * (1 if buy else -1)
                ops.append({"op": "add", "agent": rng.randint(0, 3), "buy": buy, "price": price,
                            "vol": rng.randint(1, 3), "ttl": rng.choice([None, 2, 150])})
                n += 1
                if rng.random() < 0.7:
                    ops.append({"op": "exec"})
            if n and rng.random() < 0.2:
                ops.append({"op": "cancel", "ref": rng.randint(0, n - 1)})
        fund = fund * math.exp(rng.gauss(0, 0.003))
        if rng.random() < 0.02 and t + 3 < n_ticks:
            ops.append({"op": "jump", "k": 3, "fund": fund})
            t += 3
        else:
            ops.append({"op": "tick", "fund": fund})
            t += 1
    return cfg, ops


def gen_mkt2(rng, n_ops):
    """market orders on both sides: small volumes so that resting market orders are filled partly,
    crossing limit orders close to the base price, many cancels, the running switch now and then"""
    tick = rng.choice([1.0, 0.5])
    base = rng.choice([100.0, 300.0])
    cfg = {"tick": tick, "price": base, "fund0": base, "profile": "mkt2"}
    running = rng.random() < 0.8
    ops = [{"op": "run", "on": running}]
    n = 0
    p_market = rng.choice([0.35, 0.5, 0.65])
    limit_buy_bias = rng.choice([0.5, 0.9, 0.1, 0.95, 0.05])     # limit orders mostly on one side
    while len(ops) < n_ops:
        r = rng.random()
        if r < 0.6:
            if rng.random() < p_market:
                buy, price = rng.random() < 0.5, None
            else:
                buy, price = rng.random() < limit_buy_bias, base + rng.randint(-2, 2) * tick
            ops.append({"op": "add", "agent": rng.randint(0, 4), "buy": buy, "price": price,
                        "vol": rng.randint(1, 6), "ttl": rng.choice([None, None, None, 1, 3])})
            n += 1
            if running:
                ops.append({"op": "exec"})
        elif r < 0.8 and n:
            ops.append({"op": "cancel", "ref": rng.randint(max(0, n - 4), n - 1)})
            if running and rng.random() < 0.7:
                ops.append({"op": "exec"})
        elif r < 0.88:
            ops.append({"op": "tick", "fund": base})
        elif r < 0.93:
            running = not running
            ops.append({"op": "run", "on": running})
            if running:
                ops.append({"op": "exec"})
        else:
            ops.append({"op": "exec"})
    return cfg, ops


def gen_sweep(rng, n_ops):
    """deep one-sided book in shuffled arrival order, non-best cancels, then a multi-level sweep
    (continuous: one large crossing order; batch: a crossed book cleared in one round)"""
    tick = rng.choice([1.0, 0.5, 0.1])
    base = rng.choice([100.0, 300.0])
    cfg = {"tick": tick, "price": base, "fund0": base, "profile": "sweep"}
    ops = [{"op": "run", "on": True}]
    rest_buy = rng.random() < 0.5           # side of the resting book
    depth = rng.randint(5, 14)
    levels = list(range(1, depth + 1))
    rng.shuffle(levels)
    if rng.random() < 0.5:
        levels = [rng.randint(1, max(2, depth // 2)) for _ in range(depth)]     # price ties
    n = 0
    for lv in levels:
        px = base - lv * tick if rest_buy else base + lv * tick
        ops.append({"op": "add", "agent": rng.randint(0, 3), "buy": rest_buy, "price": px,
                    "vol": rng.randint(1, 2), "ttl": rng.choice([None, None, 4])})
        n += 1
        if rng.random() < 0.15:
            ops.append({"op": "add", "agent": rng.randint(0, 3), "buy": rest_buy, "price": px,
                        "vol": 1, "ttl": None})
            n += 1
    for _ in range(rng.randint(1, 5)):
        ops.append({"op": "cancel", "ref": rng.randint(0, n - 1)})
        if rng.random() < 0.5:
            ops.append({"op": "exec"})
    if rng.random() < 0.3:
        ops.append({"op": "tick", "fund": base})
    batch = rng.random() < 0.4
    if batch:
        ops.append({"op": "run", "on": False})
    k = rng.randint(2, depth)
    for _ in range(rng.randint(1, 2) if batch else 1):
        limit = None if rng.random() < 0.25 else (base - (k + 0.0) * tick if rest_buy else base + (k + 0.0) * tick)
        ops.append({"op": "add", "agent": 4, "buy": not rest_buy, "price": limit, "vol": rng.randint(3, 2 * depth), "ttl": None})
        n += 1
        if not batch:
            ops.append({"op": "exec"})
    if batch:
        ops.append({"op": "run", "on": True})
        ops.append({"op": "exec"})
    while len(ops) < min(n_ops, 30):
        ops.append(rng.choice([{"op": "tick", "fund": base}, {"op": "exec"},
                               {"op": "cancel", "ref": rng.randint(0, n - 1)}]))
    return cfg, ops


def small_scope_market_orders(length):
    """bounded-exhaustive: every sequence of `length` operations over a compact alphabet centred on
    market orders (both sides, volumes 2 and 3), one-lot limit orders at one price per side, the
    cancel of the latest order and a clock step; continuous matching.  Used by the failing-input
    search of C01/C03 and in the thorough tier (validation of the model; not a proof)."""
    import itertools
    alphabet = [
        {"op": "add", "agent": 0, "buy": False, "price": None, "vol": 3, "ttl": None},
        {"op": "add", "agent": 1, "buy": True, "price": None, "vol": 3, "ttl": None},
        {"op": "add", "agent": 0, "buy": False, "price": None, "vol": 2, "ttl": None},
        {"op": "add", "agent": 1, "buy": True, "price": None, "vol": 2, "ttl": None},
        {"op": "add", "agent": 2, "buy": True, "price": 100.0, "vol": 1, "ttl": None},
        {"op": "add", "agent": 3, "buy": False, "price": 100.0, "vol": 1, "ttl": None},
        {"op": "cancel", "ref": -1},
        {"op": "tick", "fund": 100.0},
    ]
    cfg = {"tick": 1.0, "price": 100.0, "fund0": 100.0, "profile": "exhaustive-market"}
    for seq in itertools.product(alphabet, repeat=length):
        ops = [{"op": "run", "on": True}]
        n = 0
        for x in seq:
            x = dict(x)
            if x["op"] == "cancel":
                if n == 0:
                    break
                x["ref"] = n - 1
            ops.append(x)
            if x["op"] == "add":
                n += 1
            if x["op"] != "tick":
                ops.append({"op": "exec"})
        else:
            yield cfg, ops


def small_scope_histories(max_len):
    """bounded-exhaustive op sequences over a tiny domain (thorough tier; validates the model)."""
    import itertools
    alphabet = []
    for buy in (True, False):
        for price in (None, 99.0, 100.0, 101.0):
            for vol in (1, 2):
                alphabet.append({"op": "add", "agent": 0, "buy": buy, "price": price, "vol": vol, "ttl": 1})
    alphabet.append({"op": "exec"})
    alphabet.append({"op": "tick", "fund": 100.0})
    alphabet.append({"op": "cancel", "ref": 0})
    cfg = {"tick": 1.0, "price": 100.0, "fund0": 100.0, "profile": "exhaustive"}
    for n in range(1, max_len + 1):
        for seq in itertools.product(alphabet, repeat=n):
            yield cfg, [{"op": "run", "on": True}] + [dict(x) for x in seq] + [{"op": "exec"}]
