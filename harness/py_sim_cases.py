"""Differential cases (T2) for the simulator's hook registration and dispatch and its clock advance: the
translated `Simulator._add_event`, `_check_event_class_and_instance`, the nine `_trigger_event_*`,
`_update_time_on_market` and `_update_times_on_markets` under the mini-Python semantics against CPython on a
real `Simulator` with real markets (plain and index), sessions, `EventHook`s and probe events whose
handlers are recorded.  Compared: exception class, every serialized field afterwards (in particular
`events_dict`, `event_hooks`, `events`, `n_events`, `id2event`, `name2event`) and the sequence of handler
calls with receivers and arguments.
"""
import random

import py_checks
from py_checks import FIELDS, Case

from pams.events.base import EventABC, EventHook
from pams.index_market import IndexMarket
from pams.logs.base import CancelLog, ExecutionLog, OrderLog
from pams.market import Market
from pams.order import LIMIT_ORDER, Cancel, Order
from pams.session import Session
from pams.simulator import Simulator

HANDLERS = ["hooked_before_order", "hooked_after_order", "hooked_before_cancel", "hooked_after_cancel",
            "hooked_after_execution", "hooked_before_session", "hooked_after_session",
            "hooked_before_step_for_market", "hooked_after_step_for_market"]


class ProbeEvent(EventABC):
    def hook_registration(self):
        return []


FIELDS.update({
    EventHook: ["event", "hook_type", "is_before", "time", "specific_class", "specific_instance"],
    ProbeEvent: ["event_id", "name"],
    OrderLog: ["order_id", "market_id", "time", "agent_id"],
    CancelLog: ["order_id", "market_id", "cancel_time", "order_time", "agent_id"],
})
FIELDS[Simulator] = FIELDS[Simulator] + ["events_dict", "event_hooks", "events", "n_events", "id2event", "name2event",
                                         "markets", "fundamentals"]
FIELDS[Session] = FIELDS[Session]
for _c in ("Session", "EventHook"):
    if _c not in py_checks.CLASS_GLOBALS:
        py_checks.CLASS_GLOBALS.append(_c)


class SimCase(Case):
    """a case whose patched handlers are compared with receivers and arguments"""
    all_calls = False
    want_full = True

    def __init__(self, fn, target, args, patch, world_objs, ext=()):
        Case.__init__(self, fn, target, args, ext=ext, patch=patch)
        self.world_objs = world_objs

    def lines_and_expect(self):
        # serialize the world first (objects handed to handlers must have addresses)
        self.args = list(self.args)
        self.ext = list(self.ext) + [(o, "__touch__", [], None) for o in self.world_objs]
        lines, res, obs, after, calls = Case.lines_and_expect(self)
        return [l for l in lines if "__touch__" not in l], res, obs, after, calls


def _world(rng):
    sim = Simulator(prng=random.Random(rng.randint(0, 10 ** 6)))
    sessions = []
    start = 0
    for k in range(rng.choice([1, 2])):
        ses = Session(session_id=k, prng=random.Random(1), session_start_time=start, simulator=sim, name="s%d" % k)
        ses.setup({"sessionName": k, "iterationSteps": rng.choice([0, 1, 3, 5]), "withOrderPlacement": True,
                   "withOrderExecution": True, "withPrint": False})
        sim._add_session(ses)
        sessions.append(ses)
        start += ses.iteration_steps
    mks = []
    for i in range(2):
        m = Market(market_id=i, prng=random.Random(2), simulator=sim, name="m%d" % i)
        m.setup({"tickSize": 0.01, "marketPrice": 300.0, "outstandingShares": 1000})
        sim._add_market(m)
        sim.fundamentals.add_market(market_id=i, initial=300.0, drift=0.0, volatility=0.0)
        mks.append(m)
    idx = IndexMarket(market_id=2, prng=random.Random(3), simulator=sim, name="idx")
    idx.setup({"tickSize": 0.01, "marketPrice": 300.0, "markets": ["m0", "m1"]})
    sim._add_market(idx)
    sim.fundamentals.add_market(market_id=2, initial=300.0, drift=0.0, volatility=0.0)
    t = rng.choice([0, 1, 2, 4])
    for _ in range(t + 1):
        for m in mks:
            m._update_time(next_fundamental_price=300.0)
        idx._update_time(next_fundamental_price=300.0)
    sim.current_session = sessions[0]
    events = [ProbeEvent(event_id=i, prng=random.Random(0), session=sessions[0], simulator=sim, name="e%d" % i)
              for i in range(rng.choice([1, 2, 3]))]
    return sim, sessions, mks + [idx], events, t


def _hook(rng, events, markets, t, prefer=None):
    typ = rng.choice(["order", "cancel", "execution", "session", "market", "market", "market"])
    before = False if typ == "execution" else rng.random() < 0.5
    if prefer is not None and rng.random() < 0.75:
        typ, before = prefer
    r = rng.random()
    if r < 0.35:
        times = None
    elif r < 0.45:
        times = []
    else:
        times = [rng.choice([t, t, t - 1, t + 1, 0, 7]) for _ in range(rng.choice([1, 2, 3, 4]))]
    cls = inst = None
    if typ == "market":
        r = rng.random()
        if r < 0.25:
            cls = rng.choice([Market, IndexMarket])
        elif r < 0.5:
            inst = rng.choice(markets)
        elif r < 0.6:
            cls, inst = rng.choice([Market, IndexMarket]), rng.choice(markets)
    return EventHook(event=rng.choice(events), hook_type=typ, is_before=before, time=times, specific_class=cls,
                     specific_instance=inst)


def gen_sim_cases(rng, n):
    for i in range(n):
        sim, sessions, markets, events, t = _world(rng)
        kind = i % 8
        sub = rng.random() < 0.5
        sub3 = rng.random()
        prefer = {1: ("market", sub), 2: ("session", sub), 3: ("order" if sub else "cancel", True),
                  4: ("order" if sub3 < 0.34 else "cancel" if sub3 < 0.67 else "execution", False)}.get(kind)
        hooks = []
        for _ in range(rng.choice([1, 2, 4, 6])):
            h = _hook(rng, events, markets, t, prefer)
            sim._add_event(h)
            hooks.append(h)
        world = [sim] + sessions + markets + events + hooks
        patch = [(e, hn) for e in events for hn in HANDLERS]
        if kind == 0:
            h = rng.choice(hooks) if rng.random() < 0.15 else _hook(rng, events + [ProbeEvent(
                event_id=9, prng=random.Random(0), session=sessions[0], simulator=sim, name=rng.choice(["e0", "new"]))], markets, t)
            yield SimCase("Simulator._add_event", sim._add_event, [sim, h], [], world + [h.event])
        elif kind == 1:
            m = rng.choice(markets)
            fn = "_trigger_event_before_step_for_market" if sub else "_trigger_event_after_step_for_market"
            yield SimCase("Simulator." + fn, getattr(sim, fn), [sim, m], patch, world)
        elif kind == 2:
            s = rng.choice(sessions)
            fn = "_trigger_event_before_session" if sub else "_trigger_event_after_session"
            yield SimCase("Simulator." + fn, getattr(sim, fn), [sim, s], patch, world)
        elif kind == 3:
            o = Order(agent_id=0, market_id=rng.choice([0, 1]), is_buy=True, kind=LIMIT_ORDER, volume=1, price=300.0)
            if sub:
                yield SimCase("Simulator._trigger_event_before_order", sim._trigger_event_before_order, [sim, o], patch, world)
            else:
                c = Cancel(order=o)
                yield SimCase("Simulator._trigger_event_before_cancel", sim._trigger_event_before_cancel, [sim, c], patch, world)
        elif kind == 4:
            tt = rng.choice([t, t, t - 1, 0])
            r = sub3
            if r < 0.34:
                lg = OrderLog(order_id=1, market_id=0, time=tt, agent_id=0, is_buy=True, kind=LIMIT_ORDER, volume=1, price=300.0, ttl=None)
                yield SimCase("Simulator._trigger_event_after_order", sim._trigger_event_after_order, [sim, lg], patch, world)
            elif r < 0.67:
                lg = CancelLog(order_id=1, market_id=0, cancel_time=tt, order_time=0, agent_id=0, is_buy=True,
                               kind=LIMIT_ORDER, volume=1, price=300.0, ttl=None)
                yield SimCase("Simulator._trigger_event_after_cancel", sim._trigger_event_after_cancel, [sim, lg], patch, world)
            else:
                lg = ExecutionLog(market_id=0, time=tt, buy_agent_id=0, sell_agent_id=1, buy_order_id=1, sell_order_id=2,
                                  price=300.0, volume=1)
                yield SimCase("Simulator._trigger_event_after_execution", sim._trigger_event_after_execution, [sim, lg], patch, world)
        elif kind == 5:
            m = rng.choice(markets)
            cls = rng.choice([None, Market, IndexMarket])
            inst = rng.choice([None, None] + markets)
            yield SimCase("Simulator._check_event_class_and_instance", sim._check_event_class_and_instance,
                          [sim, m, cls, inst], [], world)
        elif kind == 6:
            ms = list(markets)
            rng.shuffle(ms)
            yield SimCase("Simulator._update_times_on_markets", sim._update_times_on_markets, [sim, ms],
                          [(sim, "_update_time_on_market")], world)
        else:
            m = rng.choice(markets[:2])
            nxt = sim.fundamentals.get_fundamental_price(market_id=m.market_id, time=m.get_time() + 1)
            c = SimCase("Simulator._update_time_on_market", sim._update_time_on_market, [sim, m],
                        [(m, "_update_time")], world,
                        ext=[(sim.fundamentals, "get_fundamental_price", [m.market_id, m.get_time() + 1], nxt)])
            c.exclude = ["Fundamentals.get_fundamental_price"]
            yield c


py_checks.GENS["simdispatch"] = gen_sim_cases


# ---------------------------------------------------------------------------------------------
# the logger: queueing, synchronous delivery, flushing (group "logger")
# ---------------------------------------------------------------------------------------------
from pams.logs.base import (ExpirationLog, Logger, MarketStepBeginLog, MarketStepEndLog, SessionBeginLog,  # noqa: E402
                            SessionEndLog, SimulationBeginLog, SimulationEndLog)

PROCESS = ["process_order_log", "process_cancel_log", "process_expiration_log", "process_execution_log",
           "process_simulation_begin_log", "process_simulation_end_log", "process_session_begin_log",
           "process_session_end_log", "process_market_step_begin_log", "process_market_step_end_log"]
FIELDS.update({Logger: ["pending_logs"], ExpirationLog: ["order_id", "market_id", "time"],
               SimulationBeginLog: [], SimulationEndLog: [], SessionBeginLog: [], SessionEndLog: [],
               MarketStepBeginLog: [], MarketStepEndLog: []})
for _c in ("ExpirationLog", "SimulationBeginLog", "SimulationEndLog", "SessionBeginLog", "SessionEndLog",
           "MarketStepBeginLog", "MarketStepEndLog", "OrderLog", "CancelLog", "ExecutionLog"):
    if _c not in py_checks.CLASS_GLOBALS:
        py_checks.CLASS_GLOBALS.append(_c)


class _Other:
    """not a record: `process` refuses it"""


def _records(rng, sim, ses, mk, n):
    out = []
    for _ in range(n):
        k = rng.randrange(10)
        if k == 0:
            out.append(OrderLog(order_id=1, market_id=0, time=1, agent_id=0, is_buy=True, kind=LIMIT_ORDER, volume=1, price=300.0, ttl=None))
        elif k == 1:
            out.append(CancelLog(order_id=1, market_id=0, cancel_time=2, order_time=0, agent_id=0, is_buy=True,
                                 kind=LIMIT_ORDER, volume=1, price=300.0, ttl=None))
        elif k == 2:
            out.append(ExpirationLog(order_id=1, market_id=0, time=2, order_time=0, agent_id=0, is_buy=True,
                                     kind=LIMIT_ORDER, volume=1, price=300.0, ttl=1))
        elif k == 3:
            out.append(ExecutionLog(market_id=0, time=1, buy_agent_id=0, sell_agent_id=1, buy_order_id=1, sell_order_id=2,
                                    price=300.0, volume=1))
        elif k == 4:
            out.append(SimulationBeginLog(simulator=sim))
        elif k == 5:
            out.append(SimulationEndLog(simulator=sim))
        elif k == 6:
            out.append(SessionBeginLog(session=ses, simulator=sim))
        elif k == 7:
            out.append(SessionEndLog(session=ses, simulator=sim))
        elif k == 8:
            out.append(MarketStepBeginLog(session=ses, market=mk, simulator=sim))
        else:
            out.append(MarketStepEndLog(session=ses, market=mk, simulator=sim))
    return out


def gen_logger_cases(rng, n):
    sim, sessions, markets, events, t = _world(rng)
    for i in range(n):
        lg = Logger()
        lg.pending_logs = _records(rng, sim, sessions[0], markets[0], rng.choice([0, 1, 2, 5]))
        new = _records(rng, sim, sessions[0], markets[0], rng.choice([1, 2, 3]))
        if rng.random() < 0.06:
            (lg.pending_logs if rng.random() < 0.5 else new).append(_Other())
        patch = [(lg, p) for p in PROCESS]
        world = [lg] + lg.pending_logs + new
        k = i % 7
        if k == 0:
            yield SimCase("Logger.write", lg.write, [lg, new[0]], patch, world)
        elif k == 1:
            yield SimCase("Logger.bulk_write", lg.bulk_write, [lg, new], patch, world)
        elif k == 2:
            yield SimCase("Logger.write_and_direct_process", lg.write_and_direct_process, [lg, new[0]], patch, world)
        elif k == 3:
            yield SimCase("Logger.bulk_write_and_direct_process", lg.bulk_write_and_direct_process, [lg, new], patch, world)
        elif k == 4:
            yield SimCase("Logger._process", lg._process, [lg], patch, world)
        elif k == 5 and not isinstance(new[0], _Other):
            yield SimCase("Log.read_and_write", new[0].read_and_write, [new[0], lg], patch, world)
        elif not isinstance(new[0], _Other):
            yield SimCase("Log.read_and_write_with_direct_process", new[0].read_and_write_with_direct_process,
                          [new[0], lg], patch, world)


py_checks.GENS["logger"] = gen_logger_cases


# ---------------------------------------------------------------------------------------------
# configuration inheritance: `json_extends` (group "config")
# ---------------------------------------------------------------------------------------------
from pams.utils.json_extends import json_extends  # noqa: E402


def gen_config_cases(rng, n):
    names = ["A", "B", "C", "D", "E"]
    keys = ["x", "y", "z", "w", "class", "numAgents"]
    for _ in range(n):
        whole = {}
        present = [c for c in names if rng.random() < 0.8]
        for c in present:
            d = {}
            ks = [k for k in keys if rng.random() < 0.5]
            rng.shuffle(ks)
            for k in ks:
                d[k] = rng.choice([0, 1, 2.5, "s", True, None, rng.randint(-5, 50)])
            if rng.random() < 0.6:
                # the parent reference anywhere among the keys; sometimes missing / cyclic
                items = list(d.items())
                items.insert(rng.randint(0, len(items)), ("extends", rng.choice(names)))
                d = dict(items)
            whole[c] = d
        target = {}
        ks = [k for k in keys if rng.random() < 0.4]
        rng.shuffle(ks)
        for k in ks:
            target[k] = rng.choice([0, 7, "t", False])
        if rng.random() < 0.85:
            items = list(target.items())
            items.insert(rng.randint(0, len(items)), ("extends", rng.choice(names)))
            target = dict(items)
        parent = rng.choice(names + ["child"])
        r = rng.random()
        excl = None if r < 0.5 else [k for k in keys if rng.random() < 0.3]
        args = [whole, parent, target] + ([] if excl is None and rng.random() < 0.5 else [excl])
        c = Case("json_extends", json_extends, args)
        c.bound = False
        yield c


py_checks.GENS["config"] = gen_config_cases


# ---------------------------------------------------------------------------------------------
# random values of the configuration: `JsonRandom` (group "jsonrandom")
# ---------------------------------------------------------------------------------------------
from pams.utils.json_random import JsonRandom  # noqa: E402


class _FixedPrng:
    def __init__(self, u, g):
        self._u, self._g = u, g

    def random(self):
        return self._u

    def gauss(self, mu, sigma):
        return self._g


FIELDS.update({JsonRandom: ["prng"], _FixedPrng: []})


def gen_jsonrandom_cases(rng, n):
    nums = [0, 1, 2.5, -3, 100, 0.0, 1e-3, 7]
    for _ in range(n):
        u = rng.choice([0.0, 0.25, 0.5, 0.999, rng.random()])
        g = rng.choice([0.0, -1.5, 2.25, rng.uniform(-3, 3)])
        prng = _FixedPrng(u, g)
        jr = JsonRandom(prng=prng)
        r = rng.random()
        k = rng.choice([0, 1, 1, 2, 2, 3])
        args = [rng.choice(nums) for _ in range(k)]
        if r < 0.2:
            v = args if rng.random() < 0.3 else [rng.choice(nums), rng.choice(nums)]
        elif r < 0.3:
            v = rng.choice(nums + [True])
        elif r < 0.9:
            kind = rng.choice(["const", "uniform", "normal", "expon", "expon", "uniform", "normal", "gamma"])
            need = {"const": 1, "uniform": 2, "normal": 2, "expon": 1}.get(kind, 1)
            if rng.random() < 0.8:
                args = [rng.choice(nums) for _ in range(need)]
            v = {kind: rng.choice([args, args, args, args, 3, None])}
            if rng.random() < 0.08:
                v["uniform"] = [0, 1]
                v["const"] = [1]
        else:
            v = {}
        ext = [(prng, "random", [], u)]
        if isinstance(v, dict) and "normal" in v and isinstance(v["normal"], list) and len(v["normal"]) == 2:
            ext.append((prng, "gauss", [float(v["normal"][0]), float(v["normal"][1])], g))
        if isinstance(v, dict) and isinstance(v.get("expon"), list) and len(v["expon"]) == 1 and u == 0.0:
            continue            # log(0): a ValueError of `math.log`, outside the fragment
        yield Case("JsonRandom.random", jr.random, [jr, v], ext=ext)


py_checks.GENS["jsonrandom"] = gen_jsonrandom_cases


# ---------------------------------------------------------------------------------------------
# the market's time-indexed getters (group "getters")
# ---------------------------------------------------------------------------------------------
GETTERS = ["get_market_price", "get_mid_price", "get_last_executed_price", "get_fundamental_price",
           "get_executed_volume", "get_executed_total_price", "get_n_buy_order", "get_n_sell_order"]


def gen_getter_cases(rng, n):
    for _ in range(n):
        m = py_checks._book_market(rng, rng.choice([0, 1, 3]))[1]
        now = m.get_time()
        fn = rng.choice(GETTERS)
        r = rng.random()
        if r < 0.15:
            args = [m]
        elif r < 0.25:
            args = [m, None]
        else:
            args = [m, rng.choice([now, now, now - 1, 0, now + 1, now + 5, -1, -2, 99, 100, 250, -100])]
        yield Case("Market." + fn, getattr(m, fn), args)
        if rng.random() < 0.3:
            ts = [rng.choice([0, now, max(now - 1, 0), now + 1]) for _ in range(rng.choice([0, 1, 3]))]
            yield Case("Market.get_market_prices", m.get_market_prices, [m, rng.choice([None, ts, ts])])


py_checks.GENS["getters"] = gen_getter_cases


# ---------------------------------------------------------------------------------------------
# `setup` of the built-in events (group "eventsetup")
# ---------------------------------------------------------------------------------------------
from pams.events import FundamentalPriceShock, OrderMistakeShock, PriceLimitRule, TradingHaltRule  # noqa: E402

for _c in (FundamentalPriceShock, OrderMistakeShock, PriceLimitRule, TradingHaltRule):
    FIELDS[_c] = sorted(set(FIELDS.get(_c, []) + ["session", "simulator", "is_enabled", "target_market", "target_markets",
                                                  "trigger_time", "price_change_rate", "trigger_change_rate",
                                                  "shock_time_length", "halting_time_length", "order_volume",
                                                  "order_time_length", "target_market_name"]))
FIELDS[Simulator] = FIELDS[Simulator] + ["name2market"]


def gen_eventsetup_cases(rng, n):
    for _ in range(n):
        sim, sessions, markets, events, t = _world(rng)
        ses = rng.choice(sessions)
        cls = rng.choice([FundamentalPriceShock, OrderMistakeShock, PriceLimitRule, TradingHaltRule])
        ev = cls(event_id=0, prng=random.Random(0), session=ses, simulator=sim, name="ev")
        names = ["m0", "m1", "idx", "zz"]
        st = {}
        if cls in (FundamentalPriceShock, OrderMistakeShock):
            st = {"target": rng.choice(names[:3] if rng.random() < 0.9 else names),
                  "triggerTime": rng.choice([0, 1, 5, 2.0] if rng.random() < 0.9 else [1.5]),
                  "priceChangeRate": rng.choice([-0.1, 0.2, 0.0])}
            if cls is OrderMistakeShock:
                st.update({"orderVolume": rng.choice([1, 100, 3.0] if rng.random() < 0.2 else [1, 100]),
                           "orderTimeLength": rng.choice([0, 5, 10])})
                if rng.random() < 0.1:
                    st["priceChangeRate"] = 1
            elif rng.random() < 0.6:
                st["shockTimeLength"] = rng.choice([0, 1, 3, 2.5] if rng.random() < 0.2 else [0, 1, 3])
            if rng.random() < 0.07:
                st["triggerDays"] = 1
        else:
            st = {"targetMarkets": rng.choice([["m0"], ["m1", "m0"], ["idx"], ["m0", "zz"], "m0", [1]] if rng.random() < 0.3
                                               else [["m0"], ["m1", "m0"], ["idx", "m1"]]),
                  "triggerChangeRate": rng.choice([0.05, 0.0, 1] if rng.random() < 0.2 else [0.05, 0.0, 0.3])}
            if cls is TradingHaltRule:
                st["haltingTimeLength"] = rng.choice([0, 3, 10, 2.5] if rng.random() < 0.2 else [0, 3, 10])
        if rng.random() < 0.5:
            st["enabled"] = rng.random() < 0.5
        if rng.random() < 0.12 and st:
            st.pop(rng.choice(sorted(st)))
        yield SimCase(cls.__name__ + ".setup", ev.setup, [ev, st], [], [sim, ses] + markets)


py_checks.GENS["eventsetup"] = gen_eventsetup_cases


# --- registry: Simulator._add_market / _add_session / _add_agent -------------------------------------------------

def gen_registry_cases(rng, n):
    """the translated `_add_market`, `_add_session`, `_add_agent` against CPython on a real simulator: fresh entities,
    ids / names already in use, an object registered twice, groups that exist or not"""
    from pams.agents import ArbitrageAgent, FCNAgent, MarketMakerAgent
    for k in range(n):
        sim, sessions, markets, events, t = _world(rng)
        ags = []
        for i, cls in enumerate([FCNAgent, ArbitrageAgent]):
            a = cls(agent_id=i, prng=random.Random(5), simulator=sim, name="a%d" % i)
            sim._add_agent(a, group_name="G" if i == 0 else None)
            ags.append(a)
        kind = rng.choice(["market", "session", "agent"])
        r = rng.random()
        new_id = rng.choice([7, 9]) if r < 0.6 else rng.choice([0, 1])
        new_name = "zz%d" % k if rng.random() < 0.7 else rng.choice(["m0", "s0", "a0", "idx", "a1"])
        group = rng.choice([None, "G", "H", "m0"])
        if kind == "market":
            if rng.random() < 0.12:
                obj = rng.choice(markets)
            else:
                obj = Market(market_id=new_id, prng=random.Random(2), simulator=sim, name=new_name)
            yield SimCase("Simulator._add_market", sim._add_market, [sim, obj, group], [], [sim] + markets + [obj])
        elif kind == "session":
            if rng.random() < 0.12:
                obj = rng.choice(sessions)
            else:
                obj = Session(session_id=new_id, prng=random.Random(1), session_start_time=0, simulator=sim, name=new_name)
            yield SimCase("Simulator._add_session", sim._add_session, [sim, obj], [], [sim] + sessions + [obj])
        else:
            if rng.random() < 0.12:
                obj = rng.choice(ags)
            else:
                obj = rng.choice([FCNAgent, ArbitrageAgent, MarketMakerAgent])(
                    agent_id=new_id, prng=random.Random(5), simulator=sim, name=new_name)
            yield SimCase("Simulator._add_agent", sim._add_agent, [sim, obj, group], [], [sim] + ags + [obj])


FIELDS[Simulator] = FIELDS[Simulator] + [
    "n_markets", "name2market", "markets_group_name2market", "sessions", "n_sessions", "id2session", "name2session",
    "agents", "n_agents", "name2agent", "high_frequency_agents", "normal_frequency_agents", "agents_group_name2agent"]
from pams.agents import ArbitrageAgent as _Arb, FCNAgent as _Fcn, MarketMakerAgent as _Mm  # noqa: E402
from pams.agents.base import Agent as _Agent  # noqa: E402
for _c in (_Arb, _Fcn, _Mm):
    FIELDS[_c] = FIELDS[_Agent] + ["name"]
if "HighFrequencyAgent" not in py_checks.CLASS_GLOBALS:
    py_checks.CLASS_GLOBALS.append("HighFrequencyAgent")
py_checks.GENS["registry"] = gen_registry_cases
