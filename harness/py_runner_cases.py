"""Differential cases (T2) for the scheduler code: the translated `SequentialRunner._handle_orders`,
`_collect_orders_from_normal_agents`, `_update_markets`, `_iterate_market_updates` and `_run` under the
mini-Python semantics against CPython running the real methods — on a small recorded world.

The world (markets, agents, simulator, sessions, random generator, logger, log records) consists of
recording stand-ins: every call that leaves the scheduler is answered by a fixed function of its
receiver and arguments and recorded (receiver, name, arguments, answer).  The recording becomes the
EXT lines of the driver, so both sides see the same oracle; compared are the return value or the
exception class, every serialized field afterwards (`_is_running`, `current_session`) and the complete
sequence of extern call names.
"""
import unittest.mock
import warnings

import py_checks
from py_checks import CLASS_GLOBALS, FIELDS, Case, Ser

from pams.order import LIMIT_ORDER, MARKET_ORDER, Cancel, Order
from pams.runners import sequential as seqmod
from pams.runners.sequential import SequentialRunner

LOG_CLASSES = ["SimulationBeginLog", "SimulationEndLog", "SessionBeginLog", "SessionEndLog", "MarketStepBeginLog",
               "MarketStepEndLog"]


class _Rec:
    def _r(self, name, args, res):
        self._log.append((self, name, list(args), res))
        return res


class _FRunner(SequentialRunner):
    pass


class _FPrng(_Rec):
    def __init__(self, log, rev, draw):
        self._log, self._rev, self._draw = log, rev, draw

    def sample(self, lst, n):
        return self._r("sample", [lst, n], list(reversed(lst)) if self._rev else list(lst))

    def random(self):
        return self._r("random", [], self._draw)


class _FLogger(_Rec):
    def __init__(self, log):
        self._log = log

    def _process(self):
        return self._r("_process", [], None)


class _FLog(_Rec):
    def __init__(self, log):
        self._log = log

    def read_and_write(self, logger):
        return self._r("read_and_write", [logger], None)

    def read_and_write_with_direct_process(self, logger):
        return self._r("read_and_write_with_direct_process", [logger], None)


class _FFill:
    def __init__(self, b, s):
        self.buy_agent_id, self.sell_agent_id = b, s


class _FOrderLog:
    pass


class _FMarket(_Rec):
    def __init__(self, log, mid, fills):
        self._log, self.market_id, self._fills = log, mid, fills
        self._is_running = None
        self._logs = {}

    def _add_order(self, order):
        return self._r("_add_order", [order], self._logs[id(order)])

    def _cancel_order(self, cancel):
        return self._r("_cancel_order", [cancel], self._logs[id(cancel)])

    def _execution(self):
        return self._r("_execution", [], list(self._fills))


class _FAgent(_Rec):
    def __init__(self, log, aid, answer):
        self._log, self.agent_id, self._answer = log, aid, answer

    def submit_orders(self, markets):
        return self._r("submit_orders", [markets], list(self._answer))

    def submitted_order(self, log):
        return self._r("submitted_order", [log], None)

    def canceled_order(self, log):
        return self._r("canceled_order", [log], None)

    def executed_order(self, log):
        return self._r("executed_order", [log], None)


class _FSession:
    pass


class _FSim(_Rec):
    def __init__(self, log):
        self._log = log
        self.current_session = None


for _n in ["_trigger_event_before_order", "_trigger_event_after_order", "_trigger_event_before_cancel",
           "_trigger_event_after_cancel", "_trigger_event_after_execution", "_update_agents_for_execution",
           "_trigger_event_before_step_for_market", "_trigger_event_after_step_for_market",
           "_trigger_event_before_session", "_trigger_event_after_session", "_update_times_on_markets"]:
    def _mk(name):
        def f(self, *a, **k):
            return self._r(name, list(a) + list(k.values()), None)
        return f
    setattr(_FSim, _n, _mk(_n))

FIELDS.update({
    SequentialRunner: ["_prng", "simulator", "logger"],
    _FSim: ["id2market", "id2agent", "markets", "high_frequency_agents", "normal_frequency_agents", "sessions",
            "current_session"],
    _FSession: ["with_order_execution", "with_order_placement", "iteration_steps", "max_normal_orders",
                "max_high_frequency_orders", "high_frequency_submission_rate"],
    _FMarket: ["market_id", "_is_running"],
    _FAgent: ["agent_id"],
    _FFill: ["buy_agent_id", "sell_agent_id"],
})


class World:
    def __init__(self, rng, with_logger=True, agents=True):
        self.log = log = []
        n_mk = rng.choice([1, 2])
        ids = [1, 2, 3, 4, 5]
        self.fills = [_FFill(rng.choice(ids), rng.choice(ids)) for _ in range(3)]
        self.markets = [_FMarket(log, m, rng.sample(self.fills, rng.choice([0, 0, 1, 2]))) for m in range(n_mk)]
        self.requests = []

        def answer(aid):
            out = []
            for _ in range(rng.choice([0, 1, 1, 2])):
                owner = aid if rng.random() < 0.93 else rng.choice(ids)
                o = Order(agent_id=owner, market_id=rng.randrange(n_mk), is_buy=rng.random() < 0.5, kind=LIMIT_ORDER,
                          volume=1, price=100.0)
                req = Cancel(order=o) if rng.random() < 0.3 else o
                out.append(req)
                self.requests.append(req)
            return out
        n_norm = rng.choice([0, 1, 2, 3]) if agents else 0
        n_hft = rng.choice([0, 1, 2]) if agents else 0
        self.normal = [_FAgent(log, i + 1, answer(i + 1)) for i in range(n_norm)]
        self.hft = [_FAgent(log, 4 + i, answer(4 + i)) for i in range(n_hft)]
        self.others = [_FAgent(log, i, []) for i in ids if i not in {a.agent_id for a in self.normal + self.hft}]
        self.order_logs = []
        for r in self.requests:
            for m in self.markets:
                lg = _FOrderLog()
                m._logs[id(r)] = lg
                self.order_logs.append(lg)
        self.sessions = []
        for _ in range(rng.choice([1, 1, 2])):
            s = _FSession()
            s.with_order_placement = rng.random() < 0.8
            s.with_order_execution = rng.random() < 0.6
            s.iteration_steps = rng.choice([0, 1, 1, 2])
            s.max_normal_orders = rng.choice([0, 1, 2, 5])
            s.max_high_frequency_orders = rng.choice([0, 1, 5])
            s.high_frequency_submission_rate = rng.choice([0.0, 0.5, 1.0])
            self.sessions.append(s)
        self.sim = sim = _FSim(log)
        sim.markets = list(self.markets)
        sim.id2market = {m.market_id: m for m in self.markets}
        allag = self.normal + self.hft + self.others
        sim.id2agent = {a.agent_id: a for a in allag}
        sim.normal_frequency_agents = list(self.normal)
        sim.high_frequency_agents = list(self.hft)
        sim.sessions = list(self.sessions)
        self.prng = _FPrng(log, rng.random() < 0.5, rng.choice([0.0, 0.25, 0.5, 0.75, 1.0]))
        self.logger = _FLogger(log) if with_logger else None
        self.runner = object.__new__(_FRunner)
        self.runner._prng = self.prng
        self.runner.simulator = sim
        self.runner.logger = self.logger
        # the log records the runner creates: one per class and arguments, made beforehand
        self.records = {}
        self.record_objs = []

        def rec(name, *args):
            o = _FLog(log)
            self.records[(name,) + tuple(id(a) for a in args)] = o
            self.record_objs.append(o)
        rec("SimulationBeginLog", sim)
        rec("SimulationEndLog", sim)
        for s in self.sessions:
            rec("SessionBeginLog", s, sim)
            rec("SessionEndLog", s, sim)
            for m in self.markets:
                rec("MarketStepBeginLog", s, m, sim)
                rec("MarketStepEndLog", s, m, sim)

    def objects(self):
        return ([self.runner, self.sim, self.prng] + self.markets + self.normal + self.hft + self.others + self.fills +
                self.requests + self.order_logs + self.sessions + self.record_objs + ([self.logger] if self.logger else []))

    def factory(self, name):
        def make(**kw):
            args = list(kw.values())
            o = self.records[(name,) + tuple(id(a) for a in args)]
            self.log.append((None, name, args, o))
            return o
        return make


class RunnerCase(Case):
    all_calls = True

    def __init__(self, fn, world, args):
        Case.__init__(self, fn, None, args)
        self.world = world

    def lines_and_expect(self):
        w = self.world
        ser = Ser()
        arg_toks = [ser.tok(a) for a in self.args]
        for o in w.objects():
            ser.tok(o)
        mk, lk = ser.tok(MARKET_ORDER), ser.tok(LIMIT_ORDER)
        ser.flush()
        lines = ["RESET"] + ser.lines
        lines += ["GLOBAL MARKET_ORDER " + mk, "GLOBAL LIMIT_ORDER " + lk]
        lines += ["GLOBAL %s S%s" % (c, c) for c in CLASS_GLOBALS]
        before = ser.snapshot()
        obs = sorted(before)
        del w.log[:]
        method = getattr(w.runner, self.fn.split(".")[1])
        patches = [unittest.mock.patch.object(seqmod, n, w.factory(n)) for n in LOG_CLASSES]
        try:
            for p in patches:
                p.start()
            with warnings.catch_warnings():
                warnings.simplefilter("ignore")
                r = method(*self.args[1:])
            res = ("OK", ser.tok_frozen(r))
        except Exception as e:  # noqa: BLE001 - compared, not hidden
            res = ("ERR", type(e).__name__)
        finally:
            for p in patches:
                p.stop()
        self.ret_expect = None
        after = ser.snapshot() if res[0] == "OK" else None
        seen = set()
        for recv, name, eargs, result in w.log:
            line = "EXT %s %s %d %s %s" % (ser.tok_frozen(recv), name, len(eargs),
                                           " ".join(ser.tok_frozen(a) for a in eargs), ser.tok_frozen(result))
            if line not in seen:
                seen.add(line)
                lines.append(line)
        lines.append("RUN %s %d %s OBS %d %s" % (self.fn, len(self.args), " ".join(arg_toks), len(obs),
                                                 " ".join("%d %s" % af for af in obs)))
        calls = [name for _, name, _, _ in w.log]
        self.calls_full = ["|".join([name, ser.tok_frozen(recv).replace(" ", "_")] +
                                    [ser.tok_frozen(a).replace(" ", "_") for a in eargs]) for recv, name, eargs, _ in w.log]
        return lines, res, obs, after, calls


def gen_runner_cases(rng, n):
    for i in range(n):
        kind = i % 5
        if kind == 0:
            w = World(rng)
            s = w.sessions[0]
            local = [a._answer for a in w.normal if a._answer]
            yield RunnerCase("SequentialRunner._handle_orders", w, [w.runner, s, local])
        elif kind == 1:
            w = World(rng)
            yield RunnerCase("SequentialRunner._collect_orders_from_normal_agents", w, [w.runner, w.sessions[0]])
        elif kind == 2:
            w = World(rng)
            yield RunnerCase("SequentialRunner._update_markets", w, [w.runner, w.sessions[0]])
        elif kind == 3:
            w = World(rng, with_logger=rng.random() < 0.8)
            yield RunnerCase("SequentialRunner._iterate_market_updates", w, [w.runner, w.sessions[0]])
        else:
            w = World(rng, with_logger=rng.random() < 0.8)
            yield RunnerCase("SequentialRunner._run", w, [w.runner])


py_checks.GENS["runner"] = gen_runner_cases
