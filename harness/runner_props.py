"""Runner-level properties: C05, C06 (scheduler part), C09, C10, C11, C13 — correspondence with the
Lean runner model per trace alphabet + model-independent monitors on the recorded run."""
import json
import math

import common
from common import digest
import runner_checks as rc
from pams.logs.base import CancelLog, ExecutionLog, ExpirationLog, OrderLog


def viol(prop, sig, requires, observed, cfg, seed):
    return {"signature": sig, "requires": requires, "observed": observed, "monitor": prop,
            "input": {"kind": "simulation", "config": cfg, "seed": seed}}


def after_setup(run):
    log = run.rec.log
    i = next((i for i, e in enumerate(log) if e[0] == "setup.done"), None)
    return log[i + 1:] if i is not None else []


def session_of_time(run, t):
    for s in run.session_cfgs:
        if s["start"] <= t < s["start"] + s["steps"]:
            return s
    return None


# ---------------------------------------------------------------------------------------------
def mon_C05(run, cfg, seed):
    out, checks = [], 0
    if run.sim is None or not hasattr(run, "initial"):
        return out, checks
    hold = {a: [c, dict(s)] for a, (c, s) in run.initial.items()}
    log = after_setup(run)
    last_ret = None
    nfills = 0
    for ev in log:
        if ev[0] == "ret.exec":
            last_ret = ev[2]
        elif ev[0] == "ledger":
            refs, logs, before = ev[1], ev[2], ev[3]
            checks += 1
            if last_ret is None or [id(x) for x in logs] != [id(x) for x in last_ret]:
                out.append(viol("C05", "C05/ledger-not-the-round's-fills",
                                "holdings are updated with exactly the fills the round returned",
                                {"ledger": [rc.impl_runner.log_key(l) for l in logs]}, cfg, seed))
            last_ret = None
            for a, (c, s) in before.items():
                if c != hold[a][0] or s != hold[a][1]:
                    out.append(viol("C05", "C05/holdings-changed-outside-fills",
                                    "nothing but fills changes holdings",
                                    {"agent": a, "expected": hold[a], "got": (c, s)}, cfg, seed))
                    hold[a] = [c, dict(s)]
            for l in logs:
                nfills += 1
                hold[l.buy_agent_id][0] -= l.price * l.volume
                hold[l.sell_agent_id][0] += l.price * l.volume
                hold[l.buy_agent_id][1][l.market_id] = hold[l.buy_agent_id][1].get(l.market_id, 0) + l.volume
                hold[l.sell_agent_id][1][l.market_id] = hold[l.sell_agent_id][1].get(l.market_id, 0) - l.volume
        elif ev[0] == "ledger.done":
            checks += 1
            for a, (c, s) in ev[1].items():
                if s != hold[a][1]:
                    out.append(viol("C05", "C05/shares-not-endowment-plus-fills",
                                    "share positions = endowment folded with own fills",
                                    {"agent": a, "expected": hold[a][1], "got": s}, cfg, seed))
                    hold[a][1] = dict(s)
                if c != hold[a][0] and not math.isclose(c, hold[a][0], rel_tol=1e-12, abs_tol=1e-9):
                    out.append(viol("C05", "C05/cash-not-endowment-plus-fills",
                                    "cash = endowment folded with own fills (price x volume from buyer to seller)",
                                    {"agent": a, "expected": hold[a][0], "got": c}, cfg, seed))
                hold[a][0] = c
    # final state and totals
    checks += 1
    agents = run.sim.agents
    for a in agents:
        if dict(a.asset_volumes) != hold[a.agent_id][1] or not math.isclose(
                a.cash_amount, hold[a.agent_id][0], rel_tol=1e-12, abs_tol=1e-9):
            out.append(viol("C05", "C05/final-holdings-not-endowment-plus-fills",
                            "at every moment holdings = endowment folded with the fills so far",
                            {"agent": a.agent_id, "expected": hold[a.agent_id],
                             "got": (a.cash_amount, dict(a.asset_volumes))}, cfg, seed))
    mk = {m.market_id for m in run.sim.markets}
    for m in mk:
        t0 = sum(s.get(m, 0) for (_, s) in run.initial.values())
        t1 = sum(a.asset_volumes.get(m, 0) for a in agents)
        if t0 != t1:
            out.append(viol("C05", "C05/shares-not-conserved", "total shares per market are constant",
                            {"market": m, "before": t0, "after": t1}, cfg, seed))
    c0 = sum(c for (c, _) in run.initial.values())
    c1 = sum(a.cash_amount for a in agents)
    if not math.isclose(c0, c1, rel_tol=1e-9, abs_tol=1e-6 * max(1, nfills)):
        out.append(viol("C05", "C05/cash-not-conserved", "total cash is constant up to rounding",
                        {"before": c0, "after": c1, "fills": nfills}, cfg, seed))
    # holdings against the fills the simulation *reported* (every ExecutionLog handed to the logger,
    # whoever caused the round): endowment folded with all of them
    rep = {a: [c, dict(s)] for a, (c, s) in run.initial.items()}
    n_rep = 0
    seen_fill = set()
    for ev in log:
        if ev[0] == "log.write" and ev[1][0] == "fill" and ev[2] not in seen_fill:
            seen_fill.add(ev[2])
            _, mid, t, ba, sa, bid, sid, price, vol = ev[1]
            n_rep += 1
            rep[ba][0] -= price * vol
            rep[sa][0] += price * vol
            rep[ba][1][mid] = rep[ba][1].get(mid, 0) + vol
            rep[sa][1][mid] = rep[sa][1].get(mid, 0) - vol
    if run.error is None:
        checks += 1
        for a in agents:
            if {k: v for k, v in a.asset_volumes.items() if v} != {k: v for k, v in rep[a.agent_id][1].items() if v} or \
                    not math.isclose(a.cash_amount, rep[a.agent_id][0], rel_tol=1e-9, abs_tol=1e-6 * max(1, n_rep)):
                out.append(viol("C05", "C05/final-holdings-not-endowment-plus-reported-fills",
                                "holdings = endowment folded with the fills reported for the agent (every execution record of the run)",
                                {"agent": a.agent_id, "expected": rep[a.agent_id], "got": (a.cash_amount, dict(a.asset_volumes)),
                                 "reported_fills": n_rep, "fills_applied_by_the_runner": nfills}, cfg, seed))
                break
    run.n_fills = nfills
    return out, checks


# ---------------------------------------------------------------------------------------------
def mon_C09(run, cfg, seed):
    out, checks = [], 0
    for mm in getattr(run, "session_parse_mismatch", []):
        checks += 1
        out.append(viol("C09", "C09/session-parameter-not-as-configured:" + mm["key"],
                        "session parameters are the configured ones (placement / execution switches, caps, high-frequency submission rate, length)",
                        mm, cfg, seed))
    log = after_setup(run)
    ses = None
    step_consults = {}
    nonempty = 0
    in_hft = False
    hft_consults = {}
    hft_nonempty = 0
    halt = False
    flag_now = None           # the session's execution switch as the hooks last left it
    pending_accept = None     # (market) awaiting a round
    cur_u = None
    batches_left = None
    n_normal = len(run.sim.normal_frequency_agents) if run.sim is not None else 0
    n_hft_agents = len(run.sim.high_frequency_agents) if run.sim is not None else 0
    normal_open = False       # normal consultation of this step not yet closed
    hft_open = False
    aborted_at = len(log) if run.error is None else next((j for j, e in enumerate(log) if e[0] == "abort"), len(log))

    def close_normal(i):
        # consultation stops only when every normal agent has been asked or the cap is reached
        if ses is None or not ses["placement"] or i >= aborted_at:
            return
        if len(step_consults) < n_normal and nonempty < max(ses["maxNormal"], 0):
            out.append(viol("C09", "C09/normal-consultation-stopped-before-cap",
                            "normal agents are consulted, in random order, until maxNormalOrders of them have produced orders",
                            {"consulted": len(step_consults), "normal_agents": n_normal, "produced": nonempty,
                             "cap": ses["maxNormal"]}, cfg, seed))

    def close_hft(i):
        if ses is None or i >= aborted_at or cur_u is None or ses["rate"] < cur_u:
            return
        if len(hft_consults) < n_hft_agents and hft_nonempty < max(ses["maxHft"], 0):
            out.append(viol("C09", "C09/hft-consultation-stopped-before-cap",
                            "after a normal batch, high-frequency agents are consulted until maxHighFrequencyOrders of them have produced orders",
                            {"consulted": len(hft_consults), "hft_agents": n_hft_agents, "produced": hft_nonempty,
                             "cap": ses["maxHft"]}, cfg, seed))
    for i, ev in enumerate(log):
        k = ev[0]
        if k == "hook" and ev[1] == "market_after":
            if normal_open:
                normal_open = False
                close_normal(i)
            if hft_open:
                hft_open = False
                close_hft(i)
        if k == "hook" and ev[1] == "session_before":
            ses = next(s for s in run.session_cfgs if s["id"] == ev[2])
            halt = False
            flag_now = ses["execution"]
        elif k == "hook" and ev[1] == "market_before":
            if not normal_open:
                step_consults = {}
                nonempty = 0
                in_hft = False
                normal_open = ses is not None and ses["placement"]
        elif k == "hookret":
            before, after = ev[3], ev[4]
            flag_now = after[0]
            if ev[1] == "execution_after" and before[0] and not after[0]:
                halt = True
            if ev[1] == "market_before" and (not before[0]) and after[0]:
                if not halt:
                    out.append(viol("C09", "C09/execution-switched-on-without-halt",
                                    "a session configured without execution stays without execution; only the end of a halt switches matching back on",
                                    {"time": next((e[3] for e in log[i - 1:i] if e[0] == "hook"), None),
                                     "session": ses and ses["id"]}, cfg, seed))
                halt = False
        elif k == "consult":
            checks += 1
            a, hft, reqs = ev[1], ev[2], ev[3]
            if ses is not None and not ses["placement"]:
                out.append(viol("C09", "C09/agent-consulted-without-placement",
                                "in a session without order placement no agent is asked for orders",
                                {"agent": a, "session": ses["id"]}, cfg, seed))
            if not hft:
                if in_hft:
                    out.append(viol("C09", "C09/normal-agent-consulted-after-processing-began",
                                    "normal agents are consulted before their batches are processed", {"agent": a}, cfg, seed))
                step_consults[a] = step_consults.get(a, 0) + 1
                if step_consults[a] > 1:
                    out.append(viol("C09", "C09/normal-agent-consulted-twice-in-step",
                                    "in each step every normal agent is consulted at most once", {"agent": a}, cfg, seed))
                if ses is not None and nonempty >= max(ses["maxNormal"], 0) and True:
                    out.append(viol("C09", "C09/normal-cap-exceeded",
                                    "normal agents are consulted only until maxNormalOrders of them have produced orders",
                                    {"agent": a, "nonempty_before": nonempty, "cap": ses["maxNormal"]}, cfg, seed))
                if reqs:
                    nonempty += 1
            else:
                hft_consults[a] = hft_consults.get(a, 0) + 1
                if hft_consults[a] > 1:
                    out.append(viol("C09", "C09/hft-agent-consulted-twice-in-round",
                                    "per round every high-frequency agent is consulted at most once", {"agent": a}, cfg, seed))
                if cur_u is None or (ses is not None and ses["rate"] < cur_u):
                    out.append(viol("C09", "C09/hft-consulted-against-the-draw",
                                    "high-frequency agents are consulted only with the configured probability (draw <= rate)",
                                    {"agent": a, "u": cur_u, "rate": ses and ses["rate"]}, cfg, seed))
                if ses is not None and hft_nonempty >= max(ses["maxHft"], 0):
                    out.append(viol("C09", "C09/hft-cap-exceeded",
                                    "high-frequency agents are consulted only until maxHighFrequencyOrders of them have produced orders",
                                    {"agent": a, "nonempty_before": hft_nonempty, "cap": ses["maxHft"]}, cfg, seed))
                if reqs:
                    hft_nonempty += 1
        elif k == "draw.u":
            if normal_open:
                normal_open = False
                close_normal(i)
            if hft_open:
                close_hft(i)
            in_hft = True
            cur_u = ev[1]
            hft_consults = {}
            hft_nonempty = 0
            hft_open = True
        elif k in ("call.add", "call.cancel"):
            checks += 1
            if normal_open:
                normal_open = False
                close_normal(i)
            in_hft = True
            if ses is not None and not ses["placement"]:
                out.append(viol("C09", "C09/order-handed-to-market-without-placement",
                                "in a session without order placement no order is accepted",
                                {"market": ev[1], "session": ses["id"]}, cfg, seed))
            if pending_accept is not None:
                out.append(viol("C09", "C09/no-round-after-accepted-request",
                                "in an execution session a matching round follows every accepted order or cancel on that market unless a halt is in force",
                                {"market": pending_accept, "session": ses and ses["id"]}, cfg, seed))
                pending_accept = None
        elif k in ("ret.add", "ret.cancel"):
            if ses is not None and ses["execution"] and not halt:
                pending_accept = ev[1]
        elif k == "call.exec":
            checks += 1
            if flag_now is False and i < aborted_at:
                out.append(viol("C09", "C09/round-while-execution-switched-off",
                                "a matching round runs only while the session's execution switch is on — as it stands when the order has been placed (a halt may have switched it off after an earlier order of the same batch)",
                                {"market": ev[1], "session": ses and ses["id"], "halt_in_force": halt}, cfg, seed))
            if pending_accept is not None and pending_accept != ev[1]:
                out.append(viol("C09", "C09/round-on-other-market",
                                "the matching round runs on the accepted order's market",
                                {"accepted_on": pending_accept, "round_on": ev[1]}, cfg, seed))
            pending_accept = None
        elif k == "ret.exec":
            if ev[2] and ses is not None and not ses["execution"]:
                out.append(viol("C09", "C09/fill-in-session-without-execution",
                                "in a session without order execution no fill occurs, whatever events are configured",
                                {"session": ses["id"], "fills": [rc.impl_runner.log_key(l) for l in ev[2]][:3]}, cfg, seed))
        elif k == "log.direct" and ev[1][0] == "stepEnd":
            if pending_accept is not None:
                out.append(viol("C09", "C09/no-round-after-accepted-request",
                                "in an execution session a matching round follows every accepted order or cancel on that market unless a halt is in force",
                                {"market": pending_accept, "session": ses and ses["id"]}, cfg, seed))
                pending_accept = None
    return out, checks


# ---------------------------------------------------------------------------------------------
def mon_C02_run(run, cfg, seed):
    """priority inside whole simulations: after every round no order left resting outranks an order
    the round filled (market before limit, better price, earlier acceptance, lower id — on the
    orders as they stand in the book)"""
    out, checks = [], 0

    def rank(f):
        oid, buy, price, placed, vol = f
        return (0 if price is None else 1, 0 if price is None else (-price if buy else price), placed, oid)
    for ev in after_setup(run):
        if ev[0] != "ret.exec" or len(ev) < 6:
            continue
        logs, resting, filled = ev[2], ev[4], ev[5]
        for l in logs:
            for oid, buy in ((l.buy_order_id, True), (l.sell_order_id, False)):
                f = filled.get(oid)
                if f is None:
                    continue
                checks += 1
                for r in resting:
                    if r[1] == buy and r[0] != oid and r[4] > 0 and rank(r) < rank(f):
                        out.append(viol("C02", "C02/resting-order-outranks-filled-one",
                                        "after a round no order left resting has priority over an order that was filled",
                                        {"filled": f, "left_resting": r, "market": ev[1], "fill": rc.impl_runner.log_key(l)}, cfg, seed))
                        return out, checks
    return out, checks


def gen_priority_cases(ctx, n, tag="prio"):
    """whole simulations with high-frequency agents and order-rewriting events (price limit rule,
    order-mistake shock), narrow price bands so that many orders end up at equal prices"""
    rng = ctx.rng("runner", tag)
    for i in range(n):
        cfg = rc.gen_config(rng, opts={"n_markets": rng.choice([1, 2]), "index": False, "n_normal": rng.choice([3, 5]),
                                       "n_hft": rng.choice([1, 2, 3]), "fcn": False, "steps": rng.choice([6, 10, 16]),
                                       "n_sessions": rng.choice([1, 2])})
        mk = list(cfg["simulation"]["markets"])
        for nm in mk:
            cfg[nm]["tickSize"] = rng.choice([0.5, 1.0])
        for nm in ("NA", "HA"):
            if nm in cfg:
                cfg[nm].update({"aggr": rng.choice([0.05, 0.2]), "pEmpty": 0.0, "pMarket": 0.05, "maxVol": 2, "pCancel": 0.05})
        for s in cfg["simulation"]["sessions"]:
            s.update({"withOrderPlacement": True, "withOrderExecution": rng.random() < 0.8,
                      "maxNormalOrders": rng.choice([2, 3, 10]), "maxHighFrequencyOrders": rng.choice([1, 2, 5]),
                      "highFrequencySubmitRate": 1.0})
        cfg["PLR"] = {"class": "PriceLimitRule", "targetMarkets": mk, "triggerChangeRate": float(rng.choice([0.01, 0.02, 0.05]))}
        evs = ["PLR"]
        if rng.random() < 0.4:
            steps = cfg["simulation"]["sessions"][0]["iterationSteps"]
            cfg["OMS"] = {"class": "OrderMistakeShock", "target": rng.choice(mk), "triggerTime": rng.randint(0, steps - 1),
                          "priceChangeRate": float(rng.choice([-0.1, 0.1])), "orderVolume": 3, "orderTimeLength": 4}
            evs.append("OMS")
        cfg["simulation"]["sessions"][0]["events"] = evs
        yield cfg, rng.randint(0, 2 ** 31)


# ---------------------------------------------------------------------------------------------
def mon_C11(run, cfg, seed):
    out, checks = [], 0
    log = after_setup(run)
    expect = []        # pending expected callbacks: (agent, kind, id(log))
    round_snap = None
    need_snap = False
    round_fills = []
    for ev in log:
        k = ev[0]
        if k == "ret.add":
            expect.append((ev[3].agent_id, "submitted", id(ev[3])))
        elif k == "ret.cancel":
            expect.append((ev[3].agent_id, "canceled", id(ev[3])))
        elif k == "ret.exec":
            for l in ev[2]:
                expect.append((l.buy_agent_id, "executed", id(l)))
                expect.append((l.sell_agent_id, "executed", id(l)))
            round_fills = list(ev[2])
            round_snap = None
            need_snap = True
        elif k == "ledger":
            if need_snap:
                need_snap = False
                exp = {a: [c, dict(sh)] for a, (c, sh) in ev[3].items()}
                for l in round_fills:
                    exp[l.buy_agent_id][0] -= l.price * l.volume
                    exp[l.sell_agent_id][0] += l.price * l.volume
                    exp[l.buy_agent_id][1][l.market_id] = exp[l.buy_agent_id][1].get(l.market_id, 0) + l.volume
                    exp[l.sell_agent_id][1][l.market_id] = exp[l.sell_agent_id][1].get(l.market_id, 0) - l.volume
                round_snap = exp
        elif k == "cb":
            checks += 1
            a, kind, lg, snap = ev[1], ev[2], ev[3], ev[4]
            key = (a, kind, id(lg))
            if expect and expect[0] == key:
                expect.pop(0)
            elif key in expect:
                out.append(viol("C11", "C11/callback-out-of-order", "notifications follow the events in order",
                                {"got": (a, kind, rc.impl_runner.log_key(lg)), "expected_first": expect[0][:2]}, cfg, seed))
                expect.remove(key)
            else:
                out.append(viol("C11", "C11/unexpected-callback:" + kind,
                                "no agent is notified about an event it is not a party to, nor twice",
                                {"agent": a, "kind": kind, "log": rc.impl_runner.log_key(lg)}, cfg, seed))
            if kind == "executed" and round_snap is not None:
                want = round_snap.get(a)
                if want is not None and (want[1] != snap[1] or not math.isclose(want[0], snap[0], rel_tol=1e-12, abs_tol=1e-9)):
                    out.append(viol("C11", "C11/notified-before-holdings-updated-for-whole-round",
                                    "fill notifications come after holdings have been updated for the whole round",
                                    {"agent": a, "at_callback": snap, "after_round": want}, cfg, seed))
        elif k in ("call.add", "call.cancel", "call.exec") or (k == "log.direct" and ev[1][0] == "stepEnd"):
            pending = [e for e in expect if not (k == "call.exec" and False)]
            if pending and k != "call.exec":
                out.append(viol("C11", "C11/missing-callback:" + pending[0][1],
                                "each party is notified exactly once of its orders, cancels and fills",
                                {"missing": [(p[0], p[1]) for p in pending][:4]}, cfg, seed))
                expect = []
            elif k == "call.exec":
                # the owner's callback precedes the round
                if expect:
                    out.append(viol("C11", "C11/missing-callback:" + expect[0][1],
                                    "each party is notified exactly once of its orders, cancels and fills",
                                    {"missing": [(p[0], p[1]) for p in expect][:4]}, cfg, seed))
                    expect = []
    if expect and run.error is None:
        out.append(viol("C11", "C11/missing-callback:" + expect[0][1],
                        "each party is notified exactly once", {"missing": [(p[0], p[1]) for p in expect][:4]}, cfg, seed))
    return out, checks


# ---------------------------------------------------------------------------------------------
def mon_C06(run, cfg, seed):
    out, checks = [], 0
    log = after_setup(run)
    if run.sim is None:
        return out, checks
    markets = run.sim.markets
    n_mk = len(markets)
    is_index = {m.market_id: isinstance(m, rc.impl_runner.IndexMarket) for m in markets}
    expected_t = 0
    step_ticks = []
    steps_in_session = {}
    seen_first = False
    cur_ses = None
    for ev in log:
        k = ev[0]
        if k == "snap.end":
            checks += 1
            if len({t for (_, t, _) in ev[3]}) != 1:
                v = viol("C06", "C06/markets-clocks-differ-at-step-end", "all markets share one clock (also while a step is being closed)",
                         {"step_end_of_market": ev[1], "times": ev[3]}, cfg, seed)
                if not any(x["signature"] == v["signature"] for x in out):
                    out.append(v)
        if k == "snap.begin":
            checks += 1
            mk_id, ses_id, times = ev[1], ev[2], ev[3]
            ts = {t for (_, t, _) in times}
            if len(ts) != 1:
                out.append(viol("C06", "C06/markets-clocks-differ", "all markets share one clock",
                                {"times": times}, cfg, seed))
            if mk_id == markets[0].market_id:
                if not seen_first:
                    seen_first = True
                    if ts != {0}:
                        out.append(viol("C06", "C06/first-step-not-time-zero", "the clock reads 0 in the first step",
                                        {"times": times}, cfg, seed))
                elif ts != {expected_t}:
                    out.append(viol("C06", "C06/clock-not-advanced-by-one", "the clock advances by exactly one per step",
                                    {"times": times, "expected": expected_t}, cfg, seed))
                steps_in_session[ses_id] = steps_in_session.get(ses_id, 0) + 1
                s = next(x for x in run.session_cfgs if x["id"] == ses_id)
                t = next(iter(ts))
                if not (s["start"] <= t < s["start"] + s["steps"]):
                    out.append(viol("C06", "C06/step-outside-session-span",
                                    "each session spans exactly its configured steps starting where the previous one ended",
                                    {"session": ses_id, "time": t, "span": (s["start"], s["steps"])}, cfg, seed))
                step_ticks = []
        elif k == "tick":
            step_ticks.append(ev[1])
        elif k == "tick.done":
            if len(step_ticks) == n_mk:
                checks += 1
                if sorted(step_ticks) != sorted(m.market_id for m in markets):
                    out.append(viol("C06", "C06/not-every-market-advanced-once", "every market advances exactly once per step",
                                    {"ticks": step_ticks}, cfg, seed))
                pos = {m: i for i, m in enumerate(step_ticks)}
                for im in markets:
                    if is_index[im.market_id]:
                        for c in im.get_components():
                            if pos.get(c.market_id, -1) > pos.get(im.market_id, 10 ** 9):
                                out.append(viol("C06", "C06/index-market-advanced-before-component",
                                                "index markets advance after their components",
                                                {"ticks": step_ticks, "index": im.market_id, "component": c.market_id}, cfg, seed))
                t_after = ev[2]
                expected_t = t_after
    if run.error is None:
        for s in run.session_cfgs:
            checks += 1
            if steps_in_session.get(s["id"], 0) != s["steps"]:
                out.append(viol("C06", "C06/session-length-wrong", "each session spans exactly its configured number of steps",
                                {"session": s["id"], "steps": steps_in_session.get(s["id"], 0), "configured": s["steps"]}, cfg, seed))
        acc = 0
        for s in run.session_cfgs:
            if s["start"] != acc:
                out.append(viol("C06", "C06/session-start-wrong", "a session starts where the previous one ended",
                                {"session": s["id"], "start": s["start"], "expected": acc}, cfg, seed))
            acc += s["steps"]
    return out, checks


# ---------------------------------------------------------------------------------------------
def mon_C10(run, cfg, seed):
    out, checks = [], 0
    log = after_setup(run)
    events = []      # ground truth events in order: keys
    delivered = []
    pending_ids = []
    waiting = set()      # records handed in for queued delivery and not delivered yet
    ses_open = False
    for i, ev in enumerate(log):
        k = ev[0]
        if k == "ret.add":
            events.append(rc.impl_runner.log_key(ev[3]))
        elif k == "ret.cancel":
            events.append(rc.impl_runner.log_key(ev[3]))
        elif k == "ret.exec":
            for l in ev[2]:
                events.append(rc.impl_runner.log_key(l))
        elif k == "tick":
            m, t_old, _, resting = ev[1], ev[2], ev[3], ev[4]
            exp = sorted(o for o in resting if o[2] is not None and o[1] + o[2] < t_old + 1)
            for (oid, placed, ttl, vol) in exp:
                events.append(("expiry*", m, oid, t_old + 1, placed, vol, ttl))
        elif k == "log.deliver":
            key = ev[1]
            if key[0] in ("order", "cancel", "fill", "expiry"):
                delivered.append(key)
            waiting.discard(ev[2])
            if key[0] in ("sessionEnd", "sessionBegin", "simEnd"):
                checks += 1
                if waiting and run.error is None:
                    out.append(viol("C10", "C10/record-still-pending-at-session-boundary",
                                    "records are delivered in the order of the events and no later than the next session boundary: when a session boundary record is delivered, nothing handed in before it is still waiting",
                                    {"boundary": key[0], "waiting": len(waiting)}, cfg, seed))
        elif k == "log.direct":
            checks += 1
            nxt = log[i + 1] if i + 1 < len(log) else None
            # the snapshot record sits between direct and deliver for step-begin records
            j = i + 1
            while j < len(log) and log[j][0] in ("snap.begin", "snap.end"):
                j += 1
            nxt = log[j] if j < len(log) else None
            if nxt is None or nxt[0] != "log.deliver" or nxt[2] != ev[2]:
                out.append(viol("C10", "C10/step-record-not-delivered-synchronously",
                                "step records are delivered synchronously", {"record": ev[1]}, cfg, seed))
        elif k == "log.write":
            pending_ids.append(ev[2])
            waiting.add(ev[2])
            if ev[1][0] in ("stepBegin", "stepEnd"):
                checks += 1
                v = viol("C10", "C10/step-record-not-delivered-synchronously",
                         "step records are delivered synchronously", {"record": ev[1], "how": "queued until the next flush"}, cfg, seed)
                if not any(x["signature"] == v["signature"] for x in out):
                    out.append(v)
        elif k == "log.flush":
            pending_ids = []
    # every step of every market has exactly one begin and one end record
    if run.error is None and run.sim is not None:
        want = sum(x["steps"] for x in run.session_cfgs) * len(run.sim.markets)
        for kind in ("stepBegin", "stepEnd"):
            got = sum(1 for ev in log if ev[0] == "log.deliver" and ev[1][0] == kind)
            checks += 1
            if got != want:
                out.append(viol("C10", "C10/step-records-count:" + kind, "one step-begin and one step-end record per market and step",
                                {"delivered": got, "expected": want}, cfg, seed))
    # compare multiset + order (expiries of one tick up to order)
    def norm(key):
        if key[0] == "expiry":
            return ("expiry*", key[1], key[2], key[3], key[4], key[9], key[10])
        return key
    dn = [norm(x) for x in delivered]
    checks += 1

    def canon(seq):
        # sort maximal runs of expiry records (their mutual order within a tick is not fixed)
        res, run_ = [], []
        for x in seq:
            if x[0] == "expiry*":
                run_.append(x)
            else:
                res.extend(sorted(run_, key=repr))
                run_ = []
                res.append(x)
        res.extend(sorted(run_, key=repr))
        return res
    a, b = canon(events), canon(dn)
    if a != b and run.error is None:
        from collections import Counter
        ca, cb = Counter(map(repr, a)), Counter(map(repr, b))
        dup = [k for k in cb if cb[k] > ca.get(k, 0)]
        mis = [k for k in ca if ca[k] > cb.get(k, 0)]
        if dup and not mis and all(k.startswith("('fill'") for k in dup):
            sig = "C10/fill-record-delivered-twice"
        elif dup and not mis:
            sig = "C10/record-delivered-more-than-once"
        elif mis and not dup:
            sig = "C10/record-missing:" + mis[0].split(",")[0].strip("('")
        elif not dup and not mis:
            sig = "C10/records-out-of-order"
        else:
            sig = "C10/records-differ-from-events"
        out.append(viol("C10", sig, "the logger receives exactly one record per accepted order, cancel, fill and expiry, in order, with the event's values",
                        {"extra": dup[:3], "missing": mis[:3], "n_events": len(a), "n_delivered": len(b)}, cfg, seed))
    if pending_ids and run.error is None:
        out.append(viol("C10", "C10/records-not-delivered-by-session-end", "all records are delivered no later than the next session boundary",
                        {"pending": len(pending_ids)}, cfg, seed))
    # begin/end records
    if run.error is None:
        keys = [e[1] for e in log if e[0] == "log.deliver"]
        checks += 1
        want = 1 + 1 + 2 * len(run.session_cfgs)
        got = sum(1 for x in keys if x[0] in ("simBegin", "simEnd", "sessionBegin", "sessionEnd"))
        nsteps = sum(s["steps"] for s in run.session_cfgs) * len(run.sim.markets)
        gb = sum(1 for x in keys if x[0] == "stepBegin")
        ge = sum(1 for x in keys if x[0] == "stepEnd")
        if got != want or gb != nsteps or ge != nsteps:
            out.append(viol("C10", "C10/begin-end-records", "begin and end records for the simulation, each session and each market step",
                            {"sim+session": got, "expected": want, "stepBegin": gb, "stepEnd": ge, "expected_steps": nsteps}, cfg, seed))
    return out, checks


MONITORS = {"C05": mon_C05, "C06": mon_C06, "C09": mon_C09, "C10": mon_C10, "C11": mon_C11}
ALPHA = {"C05": "ledger", "C06": "clock", "C09": "sched", "C10": "logs", "C11": "callbacks",
         "C13": "hooks", "C14": "sched", "C15": "sched", "C16": "sched"}


def nontrivial(prop, run, built):
    tr = built.trace
    if prop == "C05":
        return getattr(run, "n_fills", 0) >= 10
    if prop == "C09":
        ses = run.session_cfgs
        return len({(s["placement"], s["execution"]) for s in ses}) >= 2 and any(t.startswith("consult") and t.endswith(" 1") for t in tr)
    if prop == "C11":
        return any(t.startswith("ledger ") and len(t.split()) >= 3 for t in tr)
    if prop == "C06":
        return len(run.session_cfgs) >= 2 and len(run.sim.markets) >= 2
    if prop == "C10":
        kinds = {e[1][0] for e in run.rec.log if e[0] == "log.deliver"}
        return {"order", "cancel", "fill"} <= kinds
    return True


def gen_cases(ctx, prop, n):
    rng = ctx.rng("runner", prop)
    for i in range(n):
        opts = {}
        if prop == "C06":
            opts = {"n_markets": rng.choice([1, 2, 3, 4]), "index": rng.random() < 0.5,
                    "steps": rng.choice([3, 5, 40, 105]) if i % 5 == 0 else rng.choice([2, 4, 6])}
            if i % 3 == 1:
                # session lengths differ, and some sessions (the first one included) have zero steps: "each
                # session spans exactly its configured number of steps starting where the previous one ended"
                lens = [rng.choice([0, 0, 1, 2, 3, 5]) for _ in range(4)]
                opts["steps"] = (lambda k, lens=lens: lens[k % 4])
                opts["n_sessions"] = rng.choice([2, 3, 4])
        elif prop == "C09":
            opts = {"n_normal": rng.choice([0, 1, 3, 6]), "n_hft": rng.choice([0, 1, 2, 4]),
                    "pSpoof": 0.02 if i % 7 == 0 else 0.0, "pResubmit": 0.02 if i % 11 == 0 else 0.0}
        elif prop == "C05":
            opts = {"n_normal": rng.choice([3, 6, 10]), "n_hft": rng.choice([0, 2]), "steps": rng.choice([6, 10, 20])}
        elif prop == "C11":
            opts = {"n_normal": rng.choice([2, 4, 8]), "n_hft": rng.choice([0, 1, 3])}
        cfg = rc.gen_config(rng, opts=opts)
        if prop == "C10" and i % 4 == 3:
            # a session that accepts no orders after one that did: orders with a lifetime placed in the first one
            # expire while nothing is placed (the clock still runs), sometimes followed by a third session
            ses = cfg["simulation"]["sessions"]
            while len(ses) < 2:
                ses.append(dict(ses[0], sessionName=len(ses)))
            ses[0].update({"withOrderPlacement": True, "iterationSteps": rng.choice([2, 3, 5]),
                           "maxNormalOrders": max(3, ses[0]["maxNormalOrders"])})
            ses[1].update({"withOrderPlacement": False, "iterationSteps": rng.choice([4, 6, 9])})
        if (prop == "C09" and i % 5 in (1, 3)) or (prop in ("C05", "C11", "C10") and i % 4 == 1):
            # "whatever events are configured": built-in events, in particular a trading halt that
            # is still in force when its (execution) session ends and a no-execution session follows
            mk = [m for m in cfg["simulation"]["markets"] if m.startswith("M")]
            ses = cfg["simulation"]["sessions"]
            if len(ses) < 2:
                ses.append(dict(ses[0], sessionName=1))
            ses[0].update({"withOrderPlacement": True, "withOrderExecution": True, "iterationSteps": rng.choice([3, 5, 8]),
                           "maxNormalOrders": max(3, ses[0]["maxNormalOrders"])})
            ses[1].update({"withOrderPlacement": True, "withOrderExecution": rng.random() < 0.3,
                           "iterationSteps": rng.choice([6, 10, 14]), "maxNormalOrders": max(3, ses[1]["maxNormalOrders"])})
            cfg["THR"] = {"class": "TradingHaltRule", "targetMarkets": [rng.choice(mk)] if rng.random() < 0.6 else mk,
                          "triggerChangeRate": float(rng.choice([0.0005, 0.002, 0.01])),
                          "haltingTimeLength": rng.choice([2, 4, 7])}
            ses[0]["events"] = ["THR"]
            if rng.random() < 0.5:
                cfg["PLR"] = {"class": "PriceLimitRule", "targetMarkets": mk[:1], "triggerChangeRate": 0.05}
                ses[0]["events"].append("PLR")
            for nm in ("NA", "HA"):
                if nm in cfg:
                    cfg[nm]["aggr"] = 0.05
                    cfg[nm]["pEmpty"] = 0.0
            if "NA" not in cfg:
                cfg["NA"] = {"class": "ScriptAgent", "numAgents": 4, "cashAmount": 10000.0, "assetVolume": 50,
                             "markets": list(cfg["simulation"]["markets"]), "aggr": 0.05, "pEmpty": 0.0}
                cfg["simulation"]["agents"].append("NA")
        if prop in ("C05", "C11", "C10"):
            for s in cfg["simulation"]["sessions"]:
                if rng.random() < 0.7:
                    s["withOrderPlacement"] = True
                    s["withOrderExecution"] = True
                    s["maxNormalOrders"] = max(s["maxNormalOrders"], 2)
        yield cfg, rng.randint(0, 2 ** 31)


# channels of the closed-loop comparison (sim_checks: whole simulation against PamsModel/Sim.lean)
# that implicate each property
SIM_CHANNELS = {
    "C05": ("sim.trace", "sim.records"),
    "C06": ("sim.trace", "sim.final"),
    "C09": ("sim.trace", "sim.records"),
    "C10": ("sim.records",),
    "C11": ("sim.trace",),
    "C14": ("sim.final",),
    "C16": ("sim.trace", "sim.records"),
}


def run_runner_property(ctx, prop, n_quick=60, model_available=True, gen=None, monitor=None,
                        alphabet=None, nontrivial_fn=None, rule=None, per_run=None):
    n = n_quick * (ctx.scale if ctx.tier == "thorough" else 1)
    mon = monitor or MONITORS.get(prop)
    alpha = rc.ALPHABETS[alphabet or ALPHA.get(prop, "all")]
    builts, runs, inputs = [], [], []
    violations, samples = [], []
    hashes, nontriv = set(), set()
    checks = 0
    dist = {"events": 0, "aborted_runs": 0, "setup_errors": 0, "sessions": 0, "fills": 0,
            "consults": 0, "hft_consults": 0, "market_calls": 0, "steps": 0}
    gen = gen or (lambda: gen_cases(ctx, prop, n))
    sim_pending, sim_diffs = [], []
    sim_stats = {"runs": 0, "requests": 0, "fills": 0, "records": 0, "unsupported": {}}

    def flush_sim():
        import sim_checks
        ds, st = sim_checks.check_runs(sim_pending)
        for d in ds:
            if d["channel"] in SIM_CHANNELS[prop] or d["channel"] == "sim.driver":
                sim_diffs.append(d)
        for k in ("runs", "requests", "fills", "records"):
            sim_stats[k] += st[k]
        for k, v in st["unsupported"].items():
            sim_stats["unsupported"][k] = sim_stats["unsupported"].get(k, 0) + v
        del sim_pending[:]
    for cfg, seed in gen():
        run = rc.run_sim(cfg, seed)
        h = digest([cfg, seed])
        b = rc.build(run)
        if not b.ok:
            dist["setup_errors"] += 1
            if run.error and mon is not None:
                pass
            continue
        if run.error is not None:
            dist["aborted_runs"] += 1
        if mon is not None:
            vs, c = mon(run, cfg, seed)
            checks += c
            for v in vs:
                if not any(x["signature"] == v["signature"] for x in violations):
                    violations.append(v)
        fn = nontrivial_fn or nontrivial
        if h not in hashes and fn(prop, run, b):
            nontriv.add(h)
            if len(samples) < 2:
                samples.append({"config": cfg, "seed": seed, "trace_head": b.trace[:30]})
        hashes.add(h)
        dist["events"] += len(b.trace)
        dist["sessions"] += len(run.session_cfgs)
        dist["steps"] += sum(s["steps"] for s in run.session_cfgs)
        for t in b.trace:
            if t.startswith("consult"):
                dist["consults"] += 1
                if t.endswith(" 1"):
                    dist["hft_consults"] += 1
            elif t.startswith("addOrder") or t.startswith("cancel "):
                dist["market_calls"] += 1
            elif t.startswith("ledger "):
                dist["fills"] += len(t.split()) - 1
        builts.append(b)
        runs.append(None)
        inputs.append((cfg, seed))
        if per_run is not None:
            per_run(run, cfg, seed)
        if model_available and prop in SIM_CHANNELS:
            sim_pending.append((run, b))
            if len(sim_pending) >= 40:
                flush_sim()
    if sim_pending:
        flush_sim()
    diffs = list(sim_diffs)
    compared = 0
    if model_available and builts:
        traces, err = rc.model_traces(builts)
        if traces is None or len(traces) != len(builts):
            diffs.append({"channel": "driver", "detail": (err or "")[-1500:]})
        else:
            for (b, t, (cfg, seed)) in zip(builts, traces, inputs):
                pa, pb = rc.project(t, alpha), rc.project(b.trace, alpha)
                compared += len(pb)
                d = rc.first_diff(pa, pb)
                if d is not None:
                    j = d[0]
                    diffs.append({"channel": "trace." + (alphabet or ALPHA.get(prop, "all")), "position": j,
                                  "model": pa[max(0, j - 3): j + 2], "impl": pb[max(0, j - 3): j + 2],
                                  "config": cfg, "seed": seed})
    return {"evaluations": len(hashes), "distinct_nontrivial": len(nontriv), "rule": rule or RULES.get(prop, ""),
            "samples": samples, "violations": violations, "diffs": diffs,
            "comparisons": {"trace_events_compared": compared, "closed_loop": sim_stats}, "traces_validated": len(builts),
            "distribution": dist, "monitor_checks": checks}


RULES = {
    "C05": "random configurations (1-3 markets, optional index market, scripted normal/HFT agents, built-in FCN agents, 1-3 sessions) run end to end with instrumented simulator; non-trivial = run with >= 10 fills; distinct = hash of (config, seed)",
    "C06": "same generator incl. sessions of 40 and 105 steps (storage/generation chunk crossing) and index markets; non-trivial = >=2 sessions and >=2 markets",
    "C09": "same generator with random flags, caps 0/1/2/3/10, HFT caps 0/1/2/5, rates 0/0.3/0.5/1, occasional spoofing/resubmitting agents; non-trivial = >=2 distinct (placement,execution) combinations and an HFT consultation",
    "C10": "same generator; non-trivial = run whose delivered stream contains order, cancel and fill records",
    "C11": "same generator; non-trivial = run with a round of >= 2 fills",
}


def replay_runner(prop, obj, monitor=None):
    inp = obj["input"]
    run = rc.run_sim(inp["config"], inp["seed"])
    mon = monitor or MONITORS[prop]
    vs, _ = mon(run, inp["config"], inp["seed"])
    return {"violations": [{"signature": v["signature"], "observed": v["observed"]} for v in vs],
            "error": run.error}
