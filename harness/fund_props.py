"""C12 — fundamentals: a recording Fundamentals subclass (normal draws, Cholesky factor), path
recomputation by the Lean Float model (Driver/Pure.lean `genpath`), model-independent monitors."""
import math
import random

import numpy as np

import common
from common import LeanDriver, bits2f, digest, fbits

import pams.fundamentals as pf
from pams.fundamentals import Fundamentals


def viol(sig, requires, observed, inp):
    return {"signature": sig, "requires": requires, "observed": observed, "monitor": "C12", "input": inp}


class RecFundamentals(Fundamentals):
    """records, per generated chunk, the target ids, the start level, the log returns, the normal
    draws and the Cholesky factor"""

    def __init__(self, prng):
        super().__init__(prng)
        self.chunks = []
        self.version = 0          # the harness' count of setter calls so far (the parameter set's identity)
        self.fs_ops = []          # the reads / setter calls / shocks performed, in the model's vocabulary
        self.fs_g = []            # _generated_until after each of them
        # the harness' own bookkeeping of what has been configured, by unordered pair (last call wins)
        self.expected_corr = {}

    def _generate_log_return(self, generate_target_ids, length):
        orig_chol = pf.cholesky
        rec = {}

        def chol(a, lower=True):
            L = orig_chol(a, lower=lower)
            rec["cov"] = np.array(a)
            rec["L"] = np.array(L)
            return L
        gen = self._np_prng

        class G:
            def standard_normal(s, size):
                z = gen.standard_normal(size=size)
                rec["z"] = np.array(z)
                return z
        pf.cholesky = chol
        self._np_prng = G()
        try:
            r = super()._generate_log_return(generate_target_ids, length)
        finally:
            pf.cholesky = orig_chol
            self._np_prng = gen
        self.chunks.append({"ids": list(generate_target_ids), "from": self._generated_until, "length": length,
                            "returns": np.array(r), "start": [self.prices[x][self._generated_until] for x in generate_target_ids],
                            "vols": [self.volatilities[x] for x in generate_target_ids],
                            "drifts": [self.drifts[x] for x in generate_target_ids],
                            "expected_corr": dict(self.expected_corr), "version": self.version, **rec})
        return r

    def fs(self, *op):
        """note an operation of the regeneration model and the regeneration point after it"""
        self.fs_ops += [str(x) for x in op]
        self.fs_g.append(self._generated_until)


def gen_case(rng):
    n = rng.choice([1, 2, 3, 5])
    mk = []
    for i in range(n):
        mk.append({"initial": rng.choice([300.0, 100.0, 1.5, 12345.0]), "drift": rng.choice([0.0, 0.0, 1e-4, -2e-4]),
                   "vol": rng.choice([0.0, 0.001, 0.01, 0.02])})
    corr = []
    idx = [i for i in range(n) if mk[i]["vol"] > 0]
    for a in idx:
        for b in idx:
            if a < b and rng.random() < 0.5:
                corr.append((a, b, rng.choice([0.2, -0.3, 0.5, 0.7])))
    # admissible = positive definite correlation matrix (with margin, also after a later 0.3 change)
    def pd(cs):
        M = np.eye(n)
        for a, b, c in cs:
            M[a][b] = M[b][a] = c
        return np.linalg.eigvalsh(M).min() > 0.15
    while corr and not pd(corr):
        corr.pop()
    if n >= 2 and not all(pd([c for c in corr if (c[0], c[1]) != (0, 1)] + [(0, 1, r)]) for r in (0.3, -0.3, 0.25, 0.0)):
        corr = []
    horizon = rng.choice([5, 50, 120, 260])
    ops = []
    t = 0
    for _ in range(rng.randint(0, 4)):
        t = rng.randint(t, horizon)
        kind = rng.choice(["get", "drift", "vol", "shock", "corr", "corr", "uncorr", "readd"])
        ops.append({"kind": kind, "t": t, "market": rng.randint(0, n - 1), "value": rng.choice([0.0, 5e-4, -1e-3, 0.02, 0.005]),
                    "scale": rng.choice([0.5, 1.1, 2.0]), "swap": rng.random() < 0.5,
                    "rho": rng.choice([0.3, 0.3, -0.3, 0.25]),
                    # a setter called right after the previous one, with no price read in between (an
                    # event handler that changes several parameters, or schedules a later change)
                    "noread": kind not in ("get", "shock", "readd") and rng.random() < 0.4,
                    # "readd": the market is removed and registered again (same id) from time t on, with another
                    # volatility; its history before t is a new market's (flat at the level it had)
                    "newvol": rng.choice([0.002, 0.02, 0.0])})
    # the same pair may be stated more than once, in either orientation (the last statement counts)
    corr0 = []
    for a, b, c in corr:
        if rng.random() < 0.3:
            corr0.append((b, a, rng.choice([0.1, -0.2])) if rng.random() < 0.7 else (a, b, 0.1))
        corr0.append((b, a, c) if rng.random() < 0.4 else (a, b, c))
    # one case in three: the whole horizon has been generated before the first change
    return {"markets": mk, "corr": corr0, "horizon": horizon, "ops": ops, "seed": rng.randint(0, 10 ** 9),
            "pregen": rng.random() < 0.35}


def run_case(case):
    f = RecFundamentals(prng=random.Random(case["seed"]))
    for i, m in enumerate(case["markets"]):
        f.add_market(market_id=i, initial=m["initial"], drift=m["drift"], volatility=m["vol"])
    for a, b, c in case["corr"]:
        f.set_correlation(a, b, c)
        f.expected_corr[frozenset((a, b))] = c
    events = []
    clock = 0

    def snap():
        return {i: list(f.prices[i]) for i in range(len(case["markets"]))}
    if case.get("pregen"):
        for i in range(len(case["markets"])):
            f.get_fundamental_price(market_id=i, time=case["horizon"])
        f.fs("R", case["horizon"])
    for op in case["ops"]:
        t = op["t"]
        # the simulation has reached time t: everything up to t has been read (unless this call follows
        # the previous one directly)
        if not op.get("noread"):
            for i in range(len(case["markets"])):
                f.get_fundamental_price(market_id=i, time=t)
            f.fs("R", t)
        before = snap()
        g_before = f._generated_until
        k = op["kind"]
        if k == "drift":
            f.change_drift(market_id=op["market"], drift=op["value"], time=t)
            f.version += 1      # after the call: what the call generates first is generated with the old set
            f.fs("C", t, f.version)
        elif k == "vol":
            f.change_volatility(market_id=op["market"], volatility=abs(op["value"]), time=t)
            f.version += 1      # after the call: what the call generates first is generated with the old set
            f.fs("C", t, f.version)
        elif k == "corr" and len(case["markets"]) >= 2:
            a, b = (1, 0) if op.get("swap") else (0, 1)
            if f.volatilities[a] > 0 and f.volatilities[b] > 0:
                f.set_correlation(a, b, op.get("rho", 0.3), time=t)
                f.version += 1
                f.expected_corr[frozenset((a, b))] = op.get("rho", 0.3)
                f.fs("C", t, f.version)
        elif k == "uncorr" and len(case["markets"]) >= 2:
            a, b = (1, 0) if op.get("swap") else (0, 1)
            if frozenset((a, b)) in f.expected_corr:
                f.remove_correlation(a, b, time=t)
                f.version += 1
                del f.expected_corr[frozenset((a, b))]
                f.fs("C", t, f.version)
        elif k == "readd":
            i = op["market"]
            level = f.prices[i][t]
            f.remove_market(i)
            f.add_market(market_id=i, initial=level, drift=case["markets"][i]["drift"], volatility=op["newvol"], start_at=t)
            f.version += 1
            f.fs("C", t, f.version)
        elif k == "shock":
            # what Market.change_fundamental_price does
            new = f.prices[op["market"]][t] * op["scale"]
            f.prices[op["market"]][t] = new
            f._generated_until = t
            f.fs("S", t)
        g_after = f._generated_until
        if not op.get("noread"):
            for i in range(len(case["markets"])):
                f.get_fundamental_price(market_id=i, time=min(t + 3, case["horizon"]))
            f.fs("R", min(t + 3, case["horizon"]))
        events.append({"op": op, "before": before, "after": snap(), "g_after": g_after, "g_before": g_before})
    for i in range(len(case["markets"])):
        f.get_fundamental_price(market_id=i, time=case["horizon"])
    f.fs("R", case["horizon"])
    return f, events


def monitor(case, f, events):
    out = []
    n = len(case["markets"])
    H = case["horizon"]
    for i, m in enumerate(case["markets"]):
        p = f.prices[i]
        shocked0 = any(op["kind"] == "shock" and op["t"] == 0 and op["market"] == i for op in case["ops"])
        if p[0] != m["initial"] and not shocked0 and not any(op["kind"] == "readd" and op["market"] == i for op in case["ops"]):
            out.append(viol("C12/first-price-not-initial", "fundamental prices start at the configured initial value", {"market": i, "p0": p[0]}, case))
        if any(not (x > 0) for x in p[: H + 1]):
            out.append(viol("C12/non-positive-price", "fundamental prices stay strictly positive", {"market": i}, case))
    # zero volatility, no later change: closed form
    touched = {op["market"] for op in case["ops"] if op["kind"] in ("drift", "vol", "shock", "readd")}
    for i, m in enumerate(case["markets"]):
        if m["vol"] == 0.0 and i not in touched:
            for t in (1, H // 2, H):
                want = m["initial"] * math.exp(m["drift"] * t)
                if not math.isclose(f.prices[i][t], want, rel_tol=1e-9):
                    out.append(viol("C12/zero-volatility-closed-form", "with zero volatility the path is exactly initial x exp(drift x t)",
                                    {"market": i, "t": t, "price": f.prices[i][t], "expected": want}, case))
                    break
    # changes never alter values before t; a shock scales exactly the value at t
    for ev in events:
        op, t = ev["op"], ev["op"]["t"]
        for i in range(n):
            if op["kind"] == "readd" and i == op["market"]:
                continue        # a new market under the old id: its history is the new market's
            b, a = ev["before"][i], ev["after"][i]
            # the property speaks of times strictly before t; values beyond the regeneration point as it
            # stood before the call were already discarded by an earlier change (they are not values yet)
            keep = min(t, ev.get("g_before", t) + 1)
            if a[:keep] != b[:keep]:
                out.append(viol("C12/past-value-changed-by-" + op["kind"], "changing a parameter or shocking a price at time t never alters values at times before t",
                                {"market": i, "t": t, "first_difference": next(j for j in range(keep) if a[j] != b[j])}, case))
            if op["kind"] == "shock" and i == op["market"]:
                if not math.isclose(a[t], b[t] * op["scale"], rel_tol=1e-12):
                    out.append(viol("C12/shock-size", "a shock scales the value at t", {"t": t, "before": b[t], "after": a[t], "scale": op["scale"]}, case))
    # the parameters every step of the final path was generated with are the ones in force at that step:
    # a change at time t governs the steps after t, until the next change (own bookkeeping of the calls)
    def in_force(kind, i, u, init):
        val = init
        for op in case["ops"]:
            if op["market"] == i and op["t"] < u:
                if op["kind"] == kind:
                    val = abs(op["value"]) if kind == "vol" else op["value"]
                elif op["kind"] == "readd":
                    val = op["newvol"] if kind == "vol" else case["markets"][i]["drift"]
        return val
    readded = {op["market"] for op in case["ops"] if op["kind"] == "readd"}
    last_chunk = {}
    for ch in f.chunks:
        for k, x in enumerate(ch["ids"]):
            for u in range(ch["from"] + 1, ch["from"] + ch["length"] + 1):
                last_chunk[(x, u)] = (ch["drifts"][k], ch["vols"][k])
    done = False
    for i, m in enumerate(case["markets"]):
        for u in range(1, H + 1):
            if (i, u) not in last_chunk:
                continue
            d, v = last_chunk[(i, u)]
            wd, wv = in_force("drift", i, u, m["drift"]), in_force("vol", i, u, m["vol"])
            if d != wd or v != wv:
                out.append(viol("C12/step-generated-with-parameters-not-in-force",
                                "per-step log returns have the drift / volatility configured for that step: a change at time t governs exactly the steps after t",
                                {"market": i, "step": u, "drift_used": d, "drift_in_force": wd, "vol_used": v, "vol_in_force": wv}, case))
                done = True
                break
        if done:
            break
    # zero volatility throughout: the path is the piecewise closed form, with the shocks as factors
    for i, m in enumerate(case["markets"]):
        if m["vol"] != 0.0 or any(op["kind"] == "vol" and op["market"] == i and abs(op["value"]) != 0.0 for op in case["ops"]) \
                or i in readded:
            continue
        exp_p = m["initial"]
        for u in range(0, H + 1):
            if u > 0:
                exp_p = exp_p * math.exp(in_force("drift", i, u, m["drift"]))
            for op in case["ops"]:
                if op["kind"] == "shock" and op["market"] == i and op["t"] == u:
                    exp_p = exp_p * op["scale"]
            if not math.isclose(f.prices[i][u], exp_p, rel_tol=1e-9):
                out.append(viol("C12/zero-volatility-piecewise-closed-form",
                                "with zero volatility the path is initial x exp(sum of the drifts in force) x the shocks so far",
                                {"market": i, "t": u, "price": f.prices[i][u], "expected": exp_p}, case))
                break
    # step returns: p[u+1] = p[u] * exp(r_{u+1}) with r recomputed from the recorded draws
    for ch in f.chunks:
        ids = ch["ids"]
        cid = [x for x in ids if ch["vols"][ids.index(x)] != 0.0]
        L, z = ch.get("L"), ch.get("z")
        if L is None and cid and z is not None:
            # no factorisation was observed for this chunk (a cached factor?): the monitor's own factor of
            # vol x (configured correlations) x vol is what the returns must have been built with
            vv = [ch["vols"][ids.index(x)] for x in cid]
            covm = np.array([[vv[a] * (1.0 if a == b else ch.get("expected_corr", {}).get(frozenset((cid[a], cid[b])), 0.0)) * vv[b]
                              for b in range(len(cid))] for a in range(len(cid))])
            try:
                L = np.linalg.cholesky(covm)
            except Exception:
                L = None
        for k, x in enumerate(ids):
            for j in range(0, ch["length"], max(1, ch["length"] // 7)):
                if ch["vols"][k] != 0.0:
                    if L is None or z is None:
                        break
                    row = cid.index(x)
                    r = ch["drifts"][k] + sum(L[row][c] * z[c][j] for c in range(len(cid)))
                else:
                    r = ch["drifts"][k]
                if not math.isclose(ch["returns"][k][j], r, rel_tol=1e-9, abs_tol=1e-15):
                    out.append(viol("C12/return-not-drift-plus-cholesky-times-draw", "per-step log return = drift + (L z) with L the Cholesky factor of vol x corr x vol",
                                    {"market": x, "step": j, "return": float(ch["returns"][k][j]), "expected": r}, case))
                    break
        if ch.get("L") is not None and len(cid) > 0:
            cov = ch["cov"]
            if not np.allclose(L @ L.T, cov, rtol=1e-9, atol=1e-15) or not np.allclose(L, np.tril(L)):
                out.append(viol("C12/cholesky-not-factor-of-covariance", "L is lower triangular with L L^T = vol corr vol", {}, case))
            vols = [v for v in ch["vols"] if v != 0.0]
            for a in range(len(cid)):
                if not math.isclose(cov[a][a], vols[a] ** 2, rel_tol=1e-12):
                    out.append(viol("C12/covariance-diagonal-not-vol-squared", "configured volatility is the standard deviation of the returns", {"market": cid[a]}, case))
                for b in range(len(cid)):
                    if a != b:
                        rho = ch.get("expected_corr", {}).get(frozenset((cid[a], cid[b])), 0.0)
                        want = vols[a] * rho * vols[b]
                        if not math.isclose(cov[a][b], want, rel_tol=1e-12, abs_tol=1e-18):
                            out.append(viol("C12/covariance-not-configured-correlation",
                                            "the returns' covariance is vol_a x (the correlation configured last for the pair, 0 if none or removed) x vol_b",
                                            {"markets": [cid[a], cid[b]], "from_time": ch["from"], "configured": rho,
                                             "used": cov[a][b] / (vols[a] * vols[b])}, case))
    # path consistency: final prices follow the last generated chunks
    return out


def run_C12(ctx, model_available=True):
    rng = ctx.rng("C12")
    scale = ctx.scale if ctx.tier == "thorough" else 1
    violations, diffs, samples = [], [], []
    lines, expects = [], []
    seen, nontriv = set(), set()
    checks = 0
    dist = {"cases": 0, "chunks": 0, "markets": {}, "ops": {}, "correlated_cases": 0, "horizon_over_200": 0, "moment_checks": 0}
    for i in range(120 * scale):
        case = gen_case(rng)
        h = digest(case)
        seen.add(h)
        try:
            f, events = run_case(case)
        except Exception as e:
            v = viol("C12/raised:" + type(e).__name__, "generation works for admissible parameters", {"error": str(e)[:200]}, case)
            if not any(x["signature"] == v["signature"] for x in violations):
                violations.append(v)
            continue
        dist["cases"] += 1
        dist["chunks"] += len(f.chunks)
        dist["markets"][len(case["markets"])] = dist["markets"].get(len(case["markets"]), 0) + 1
        for op in case["ops"]:
            dist["ops"][op["kind"]] = dist["ops"].get(op["kind"], 0) + 1
        if case["corr"]:
            dist["correlated_cases"] += 1
        if case["horizon"] > 200:
            dist["horizon_over_200"] += 1
        if len(case["markets"]) >= 2 and case["corr"] and case["horizon"] > 100 and any(op["t"] > 100 for op in case["ops"]):
            nontriv.add(h)
        elif len(case["markets"]) >= 2 and case["horizon"] > 100 and case["ops"]:
            nontriv.add(h)
        vs = monitor(case, f, events)
        checks += 1 + len(events) + len(f.chunks)
        for ev in events:
            # model: a parameter change / shock at t sets generated_until := t (PamsModel/Fundamentals.lean,
            # theorems prefix_kept / shock_spec are stated for exactly that restart point)
            if ev["op"]["kind"] in ("drift", "vol", "shock") and ev["g_after"] != ev["op"]["t"] and model_available:
                diffs.append({"channel": "fund.generated_until", "model": ev["op"]["t"], "impl": ev["g_after"], "input": {"op": ev["op"]}})
        for v in vs:
            if not any(x["signature"] == v["signature"] for x in violations):
                violations.append(v)
        # correspondence: the regeneration bookkeeping (PamsModel/FundSched.lean) on the same operations —
        # the regeneration point after every operation, and for every final step the parameter set
        # (identified by the number of setter calls before it) its kept price was generated with
        ver = {}
        for ch in f.chunks:
            for u in range(ch["from"] + 1, ch["from"] + ch["length"] + 1):
                ver[u] = ch["version"]
        g_end = f._generated_until
        lines.append("fsched %d %s" % (f._generate_chunk_size, " ".join(f.fs_ops)))
        expects.append(("fsched", list(f.fs_g), [0] + [ver.get(u, -1) for u in range(1, g_end + 1)], case))
        # correspondence: each recorded chunk vs the Lean Float model
        for ch in f.chunks[:6]:
            for k, x in enumerate(ch["ids"]):
                rs = [float(v) for v in ch["returns"][k]]
                g = ch["from"]
                # the prices this chunk produced are only observable if no later chunk overwrote them
                lines.append("genpath %s %s" % (fbits(ch["start"][k]), " ".join(fbits(r) for r in rs[:40])))
                expects.append(("genpath", ch["start"][k], rs[:40], x, g))
        if len(samples) < 2:
            samples.append({"case": case, "first_prices": {i: f.prices[i][:4] for i in range(len(case["markets"]))}})
    compared = 0
    max_rel = 0.0
    if model_available and lines:
        out, err, dt = LeanDriver("Pure").run(lines)
        if out is None:
            diffs.append({"channel": "driver", "detail": err[-1500:]})
        else:
            for o, ex in zip(out, expects):
                if ex[0] == "fsched":
                    _, gs, prov, case_ = ex
                    left, _, right = o[1:].partition("|")
                    mg = [int(x) for x in left.split()]
                    mp = [int(x) for x in right.split()]
                    compared += 1
                    if mg != gs:
                        diffs.append({"channel": "fund.generated_until", "model": mg, "impl": gs, "input": case_})
                    elif mp != prov:
                        k = next((j for j in range(min(len(mp), len(prov))) if mp[j] != prov[j]), min(len(mp), len(prov)))
                        diffs.append({"channel": "fund.sched", "what": "parameter set step %d was generated with" % k,
                                      "model": mp[k:k + 3], "impl": prov[k:k + 3], "input": case_})
                    continue
                _, p0, rs, x, g = ex
                model = [bits2f(b) for b in o.split()[1:]]
                # numpy's own evaluation of the same chunk
                want = (p0 * np.exp(np.cumsum(np.array(rs)))).tolist()
                compared += 1
                for a, b in zip(model, want):
                    rel = abs(a - b) / abs(b)
                    max_rel = max(max_rel, rel)
                    if rel > 1e-12:
                        diffs.append({"channel": "fund.path", "model": a, "impl": b, "input": {"p0": p0, "returns": rs[:5]}})
                        break
    # thorough: large-sample moment support (not a proof; reported only)
    if ctx.tier == "thorough":
        f = RecFundamentals(prng=random.Random(ctx.seed))
        f.add_market(0, 100.0, 1e-4, 0.01)
        f.add_market(1, 100.0, -1e-4, 0.02)
        f.set_correlation(0, 1, 0.5)
        f.get_fundamental_price(0, 20000)
        r0 = np.diff(np.log(np.array(f.prices[0][:20001])))
        r1 = np.diff(np.log(np.array(f.prices[1][:20001])))
        dist["moment_checks"] = {"mean0": float(r0.mean()), "std0": float(r0.std()), "std1": float(r1.std()),
                                 "corr": float(np.corrcoef(r0, r1)[0, 1])}
        if not (abs(r0.std() - 0.01) < 5e-4 and abs(r1.std() - 0.02) < 1e-3 and abs(np.corrcoef(r0, r1)[0, 1] - 0.5) < 0.03):
            violations.append(viol("C12/sample-moments-off", "per-step log returns have the configured volatility and correlation", dist["moment_checks"], {"seed": ctx.seed}))
    return {"evaluations": len(seen), "distinct_nontrivial": len(nontriv),
            "rule": "1-5 markets with random admissible initial value / drift / volatility (incl. 0) and pairwise correlations, horizons 5..260 (crossing the 100-step generation chunks), 0-4 parameter changes / shocks / correlation changes at random times; recorded normal draws and Cholesky factors; non-trivial = >=2 markets, horizon > 100 and at least one change point",
            "samples": samples, "violations": violations, "diffs": diffs[:30],
            "comparisons": {"chunks_compared_with_lean_float_model": compared}, "traces_validated": compared,
            "distribution": dist, "monitor_checks": checks,
            "float_gap": {"max_relative_difference_lean_float_vs_numpy": max_rel}}


def replay_C12(obj):
    case = obj["input"]
    f, events = run_case(case)
    vs = monitor(case, f, events)
    return {"violations": [{"signature": v["signature"], "observed": v["observed"]} for v in vs]}
