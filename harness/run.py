#!/venv/bin/python
"""Entry point of every check:  run.py {quick|thorough} <Cxx>   |   run.py replay <path>

Pipeline per property (DESIGN.md section 3):
  1. (T) regenerate lean/PamsGen from /repo's current sources (harness/extract.py)
  2. lake build of the property's theorem module(s) and driver(s)       -> proof obligations
  3. axiom audit (`#print axioms` of every theorem in the property's namespace) + source grep
  4. correspondence: real pams vs the Lean model's executable definitions on generated cases
  5. property monitors on the real behaviour (model-independent failing-input search)
  6. decision, replay files, evidence/<id>.json

Exit 0: held on everything explored.  Exit 1 + "VIOLATION property=<id> replay=<path>": violation
(with a failing input, or ending in no-failing-input-found when only a proof obligation or the
correspondence broke).  Exit 2: infrastructure error / timeout (never a verdict).
"""
import importlib
import json
import os
import re
import subprocess
import sys
import time
import traceback

HERE = os.path.dirname(os.path.abspath(__file__))
sys.path.insert(0, HERE)
if sys.executable != "/venv/bin/python" and os.path.exists("/venv/bin/python") \
        and not os.environ.get("PAMS_VERIF_NOREEXEC"):
    os.execv("/venv/bin/python", ["/venv/bin/python"] + sys.argv)

import common  # noqa: E402
from common import LEAN_DIR, VERIF  # noqa: E402

DEFAULT_SEED = 20260929
ALLOWED_AXIOMS = {"propext", "Classical.choice", "Quot.sound"}
FORBIDDEN = re.compile(r"\b(sorry|admit|native_decide|bv_decide|implemented_by)\b|^\s*axiom\s|"
                       r"unsafe\s|maxHeartbeats\s+0")


UNSAFE_ALLOWED_IN = os.path.join("PamsLemmas", "EvalNf.lean")


class Ctx:
    def __init__(self, prop, tier, seed):
        self.prop = prop
        self.tier = tier
        self.seed = seed
        self.t0 = time.time()
        self.notes = []
        self.scale = 1 if tier == "quick" else int(os.environ.get("VERIF_THOROUGH_SCALE", "25"))

    def rng(self, *tags):
        return common.Rng(common.sub_seed(self.seed, self.prop, *tags))

    def elapsed(self):
        return time.time() - self.t0


def strip_comments(text):
    text = re.sub(r"/-.*?-/", "", text, flags=re.S)
    return "\n".join(l.split("--")[0] for l in text.splitlines())


def source_grep():
    hits = []
    for root, _, files in os.walk(LEAN_DIR):
        if ".lake" in root:
            continue
        for f in files:
            if f.endswith(".lean"):
                p = os.path.join(root, f)
                if os.path.relpath(p, LEAN_DIR) == UNSAFE_ALLOWED_IN:
                    # the candidate normal forms of `evalnf%` are computed by compiled code; every use is an
                    # equation the kernel re-checks (see the header of that file); no other keyword is waived
                    text = strip_comments(open(p).read())
                    text = re.sub(r"\bunsafe\s|\bimplemented_by\b", "", text)
                    for i, line in enumerate(text.splitlines(), 1):
                        if FORBIDDEN.search(line):
                            hits.append("%s:%d:%s" % (os.path.relpath(p, VERIF), i, line.strip()))
                    continue
                for i, line in enumerate(strip_comments(open(p).read()).splitlines(), 1):
                    if FORBIDDEN.search(line):
                        hits.append("%s:%d:%s" % (os.path.relpath(p, VERIF), i, line.strip()))
    return hits


AUDIT_TEMPLATE = """import Lean
import {module}
open Lean Elab Command in
run_cmd do
  let env ← getEnv
  let mut names : Array Name := #[]
  for (n, ci) in env.constants.toList do
    if (`{ns}).isPrefixOf n && !n.isInternal then
      match ci with
      | .thmInfo _ => names := names.push n
      | _ => pure ()
  for n in names.qsort (fun a b => a.toString < b.toString) do
    let axs ← Lean.collectAxioms n
    logInfo m!"AUDIT {{n}} :: {{axs.toList}}"
"""


def audit(modules, namespaces):
    """returns (theorems: {name: [axioms]}, raw)"""
    thms = {}
    raw = ""
    for module, ns in zip(modules, namespaces):
        src = AUDIT_TEMPLATE.format(module=module, ns=ns)
        path = os.path.join(LEAN_DIR, ".lake", "audit_%s.lean" % ns.replace(".", "_"))
        os.makedirs(os.path.dirname(path), exist_ok=True)
        with open(path, "w") as f:
            f.write(src)
        p = subprocess.run(["lake", "env", "lean", path], cwd=LEAN_DIR, capture_output=True,
                           text=True, timeout=1200)
        raw += p.stdout + p.stderr
        for m in re.finditer(r"AUDIT (\S+) :: \[(.*?)\]", p.stdout, flags=re.S):
            axs = [a.strip() for a in m.group(2).replace("\n", " ").split(",") if a.strip()]
            thms[m.group(1)] = axs
    return thms, raw


def load_known():
    p = os.path.join(VERIF, "known_findings.json")
    if not os.path.exists(p):
        return []
    return json.load(open(p)).get("findings", [])


def write_replay(prop, name, obj):
    d = os.path.join(VERIF, "replays")
    os.makedirs(d, exist_ok=True)
    path = os.path.join(d, "%s_%s.json" % (prop, name))
    with open(path, "w") as f:
        json.dump(obj, f, indent=1, default=str)
    return os.path.relpath(path, VERIF)


def write_evidence(ctx, level, coverage, assumptions, violations):
    d = os.path.join(VERIF, "evidence")
    os.makedirs(d, exist_ok=True)
    ev = {"property_id": ctx.prop, "tier": ctx.tier, "seed": ctx.seed, "level": level,
          "coverage": coverage, "assumptions": assumptions, "wall_s": round(ctx.elapsed(), 2),
          "violations": violations}
    with open(os.path.join(d, ctx.prop + ".json"), "w") as f:
        json.dump(ev, f, indent=1, default=str)


def main():
    if len(sys.argv) < 3:
        print(__doc__)
        return 2
    mode = sys.argv[1]
    if mode == "replay":
        return replay(sys.argv[2])
    tier, prop = mode, sys.argv[2]
    if tier not in ("quick", "thorough"):
        print("tier must be quick or thorough")
        return 2
    tier = os.environ.get("VERIF_TIER", tier) if os.environ.get("VERIF_TIER") in ("quick", "thorough") else tier
    seed = int(os.environ.get("VERIF_SEED", DEFAULT_SEED))
    ctx = Ctx(prop, tier, seed)
    mod = importlib.import_module("props." + prop)
    known = [k for k in load_known() if k.get("property") == prop]

    # 1. (T) source-derived parameters
    extract_status = {}
    try:
        import extract
        extract_status = extract.regenerate()
    except Exception as e:  # extraction unavailable -> hand-written defaults are used
        extract_status = {"error": "%s: %s" % (type(e).__name__, e)}

    # 2. build: property theorems (the proof obligations) and, separately, the model drivers (so that the
    # correspondence can still run and localise the difference when only a proof obligation broke)
    ok, build_out = common.lake_build(list(mod.LEAN_MODULES))
    drivers = ["Driver." + d for d in getattr(mod, "DRIVERS", [])]
    ok_drivers, drv_out = common.lake_build(drivers) if drivers else (True, "")
    proof_broken = None
    if not ok:
        if "timeout" in build_out.lower() and "error:" not in build_out:
            print("infrastructure: lake build timed out")
            return 2
        proof_broken = build_out[-6000:]
    elif not ok_drivers:
        proof_broken = "model driver does not build:\n" + drv_out[-4000:]

    # 3. audit
    thms, audit_raw, grep_hits = {}, "", []
    leanchecker_status = "not run (quick tier)"
    bad_axioms = {}
    if proof_broken is None:
        thms, audit_raw = audit(mod.LEAN_MODULES, mod.NAMESPACES)
        grep_hits = source_grep()
        for n, axs in thms.items():
            extra = [a for a in axs if a not in ALLOWED_AXIOMS]
            if extra:
                bad_axioms[n] = extra
        if not thms:
            proof_broken = "audit found no theorems in %s\n%s" % (mod.NAMESPACES, audit_raw[-3000:])
        elif bad_axioms or grep_hits:
            proof_broken = "audit failed: axioms %s ; source grep %s" % (bad_axioms, grep_hits)
        if tier == "thorough" and proof_broken is None:
            # independent re-check of the compiled property modules
            pc = subprocess.run(["lake", "env", "leanchecker"] + list(mod.LEAN_MODULES), cwd=LEAN_DIR,
                                capture_output=True, text=True, timeout=3000)
            leanchecker_status = "ok" if pc.returncode == 0 else "FAILED: " + (pc.stdout + pc.stderr)[-800:]
            if pc.returncode != 0:
                proof_broken = "leanchecker rejected %s: %s" % (mod.LEAN_MODULES, leanchecker_status)
        required = set(getattr(mod, "REQUIRED_THEOREMS", []))
        missing = [t for t in required if t not in thms]
        if missing and proof_broken is None:
            proof_broken = "required theorems missing from the build: %s" % missing

    # 4+5. correspondence and monitors
    try:
        res = mod.run(ctx, model_available=ok_drivers)
    except subprocess.TimeoutExpired:
        print("infrastructure: timeout in correspondence run")
        return 2

    violations = list(res.get("violations", []))
    diffs = list(res.get("diffs", []))

    # 6. decision
    lines = []
    exit_code = 0
    new_viol = []
    for v in violations:
        sig = v.get("signature", "")
        k = next((k for k in known if k.get("status") == "known" and k.get("signature") == sig), None)
        if k is not None:
            msg = "KNOWN-FINDING: property=%s %s" % (prop, k.get("what_fails", sig))
            if msg not in lines:
                lines.append(msg)
        else:
            new_viol.append(v)
    seen_sigs = set()
    for v in new_viol:
        if v.get("signature") in seen_sigs:
            continue
        seen_sigs.add(v.get("signature"))
        path = write_replay(prop, "fail_%s" % common.digest(v.get("signature", ""))[:8], {
            "property": prop, "kind": "failing-input", "signature": v.get("signature"),
            "requires": v.get("requires"), "observed": v.get("observed"), "input": v.get("input"),
            "monitor": v.get("monitor"), "seed": seed, "tier": tier,
            "replay_cmd": "/venv/bin/python harness/run.py replay <this file>"})
        lines.append("VIOLATION property=%s replay=%s" % (prop, path))
        exit_code = 1
    if exit_code == 0 and (proof_broken is not None or diffs):
        # the tie or a proof obligation broke: extended failing-input search on the real code
        extra = []
        try:
            extra = mod.search(ctx, res) if hasattr(mod, "search") else []
        except subprocess.TimeoutExpired:
            extra = []
        extra = [v for v in extra if not any(k.get("status") == "known" and
                                             k.get("signature") == v.get("signature") for k in known)]
        if extra:
            v = extra[0]
            path = write_replay(prop, "fail_%s" % common.digest(v.get("signature", ""))[:8], {
                "property": prop, "kind": "failing-input", "signature": v.get("signature"),
                "requires": v.get("requires"), "observed": v.get("observed"),
                "input": v.get("input"), "monitor": v.get("monitor"), "seed": seed, "tier": tier,
                "broken": ("proof obligation" if proof_broken else "correspondence"),
                "replay_cmd": "/venv/bin/python harness/run.py replay <this file>"})
            lines.append("VIOLATION property=%s replay=%s" % (prop, path))
            new_viol.append(v)
        else:
            what = {"property": prop, "kind": "no-failing-input-found", "seed": seed, "tier": tier}
            if proof_broken is not None:
                what["broken"] = "proof obligation"
                what["theorem_or_build_output"] = proof_broken
                thm = re.findall(r"error: (\S+\.lean:\d+:\d+)", proof_broken)
                what["locations"] = thm[:10]
            if diffs:
                what["broken_correspondence"] = diffs[:20]
                what["channels"] = sorted({d.get("channel") for d in diffs})
            what["search"] = res.get("search_note", "monitors found no failing input on the cases of this run and of the extended search")
            path = write_replay(prop, "unproved", what)
            lines.append("VIOLATION property=%s replay=%s no-failing-input-found" % (prop, path))
        exit_code = 1

    # evidence
    obligations = len(thms)
    discharged = len([n for n in thms if n not in bad_axioms]) if proof_broken is None else 0
    coverage = {
        "obligations": max(obligations, 1 if proof_broken else obligations),
        "discharged": discharged,
        "checker_cmd": "cd lean && lake build %s && lake env lean .lake/audit_<ns>.lean  (#print axioms of every theorem in %s)" % (" ".join(mod.LEAN_MODULES), ",".join(mod.NAMESPACES)),
        "trusted_base": getattr(mod, "TRUSTED", []) + [
            "Lean 4.33 kernel; axioms allowed: propext, Classical.choice, Quot.sound",
            "correspondence check (differential, harness/) ties the hand-written model to /repo's working tree",
        ],
        "theorems": thms,
        "proof_broken": proof_broken is not None,
        "leanchecker": leanchecker_status,
        "extractor": extract_status,
        "evaluations": res.get("evaluations", 0),
        "distinct_nontrivial": res.get("distinct_nontrivial", 0),
        "rule": res.get("rule", ""),
        "samples": res.get("samples", [])[:5],
        "traces_validated_against_impl": res.get("traces_validated", 0),
        "comparisons": res.get("comparisons", {}),
        "correspondence_diffs": len(diffs),
        "diff_examples": diffs[:5],
        "distribution": res.get("distribution", {}),
        "monitor_checks": res.get("monitor_checks", 0),
        "known_findings_hit": [l for l in lines if l.startswith("KNOWN-FINDING")],
        "float_gap": res.get("float_gap"),
    }
    write_evidence(ctx, "proof", coverage, getattr(mod, "ASSUMPTIONS", []), len(new_viol) +
                   (1 if exit_code == 1 and not new_viol else 0))
    for l in lines:
        print(l)
    print("%s %s %s: %s in %.1fs (theorems %d, cases %d, monitor checks %d, correspondence diffs %d)" % (
        prop, tier, "seed=%d" % seed, "OK" if exit_code == 0 else "FAIL", ctx.elapsed(),
        obligations, res.get("evaluations", 0), res.get("monitor_checks", 0), len(diffs)))
    return exit_code


def replay(path):
    obj = json.load(open(path))
    prop = obj["property"]
    mod = importlib.import_module("props." + prop)
    if obj.get("kind") != "failing-input":
        print("replay file records a broken proof obligation / correspondence without a failing input:")
        print(json.dumps({k: obj[k] for k in obj if k != "theorem_or_build_output"}, indent=1)[:4000])
        return 0
    out = mod.replay(obj)
    print(json.dumps(out, indent=1, default=str)[:6000])
    return 1 if out.get("violations") else 0


if __name__ == "__main__":
    try:
        sys.exit(main())
    except SystemExit:
        raise
    except Exception:
        traceback.print_exc()
        print("infrastructure error (exit 2)")
        sys.exit(2)
