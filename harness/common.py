"""Shared utilities of the verification harness (run under /venv/bin/python so that pams from
/repo's working tree and its numpy/scipy dependencies import)."""
import hashlib
import json
import math
import os
import random
import struct
import subprocess
import sys
import time
import warnings

VERIF = os.path.dirname(os.path.dirname(os.path.abspath(__file__)))
LEAN_DIR = os.path.join(VERIF, "lean")
REPO = os.environ.get("PAMS_REPO", "/repo")
if REPO not in sys.path:
    sys.path.insert(0, REPO)
warnings.filterwarnings("ignore")

NCPU = os.cpu_count() or 4


def fkey(x):
    """monotone integer key of a double (None -> '-')."""
    if x is None:
        return "-"
    x = float(x)
    if x != x:
        raise ValueError("NaN has no key")
    b = struct.unpack("<Q", struct.pack("<d", x))[0]
    if b & (1 << 63):
        return str(-(b & ((1 << 63) - 1)))
    return str(b)


def fbits(x):
    return str(struct.unpack("<Q", struct.pack("<d", float(x)))[0])


def bits2f(b):
    return struct.unpack("<d", struct.pack("<Q", int(b)))[0]


def key2f(k):
    k = int(k)
    if k < 0:
        return bits2f((-k) | (1 << 63))
    return bits2f(k)


def opt(x):
    return "-" if x is None else str(x)


def b2s(b):
    return "1" if b else "0"


def digest(obj):
    return hashlib.sha256(json.dumps(obj, sort_keys=True, default=str).encode()).hexdigest()[:16]


class LeanDriver:
    """Runs `lake env lean --run Driver/<name>.lean` on a list of lines, returns stdout lines."""

    def __init__(self, name):
        self.name = name

    def run(self, lines, timeout=1800):
        inp = "\n".join(lines) + "\n"
        t0 = time.time()
        p = subprocess.run(
            ["lake", "env", "lean", "--run", f"Driver/{self.name}.lean"],
            cwd=LEAN_DIR, input=inp, capture_output=True, text=True, timeout=timeout,
        )
        dt = time.time() - t0
        if p.returncode != 0:
            return None, p.stdout + "\n" + p.stderr, dt
        return p.stdout.splitlines(), p.stderr, dt


def lake_build(targets, timeout=3600):
    """`lake build` of the given modules, serialised across the checks of different properties that
    run at the same time (two concurrent builds of one module can trample each other's outputs)"""
    import fcntl
    os.makedirs(os.path.join(LEAN_DIR, ".lake"), exist_ok=True)
    with open(os.path.join(LEAN_DIR, ".lake", "verif_build.lock"), "w") as lock:
        fcntl.flock(lock, fcntl.LOCK_EX)
        try:
            p = subprocess.run(["lake", "build"] + list(targets), cwd=LEAN_DIR, capture_output=True,
                               text=True, timeout=timeout)
        finally:
            fcntl.flock(lock, fcntl.LOCK_UN)
    return p.returncode == 0, p.stdout + p.stderr


def now():
    return time.time()


class Rng(random.Random):
    """single PRNG all generator choices derive from"""
    pass


def sub_seed(seed, *tags):
    h = hashlib.sha256(("%d|" % seed + "|".join(map(str, tags))).encode()).digest()
    return int.from_bytes(h[:8], "little")
