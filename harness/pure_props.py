"""Pure numeric properties: C19 (tick snapping), C17 (index values)."""
import math
import random
import warnings
from fractions import Fraction

import common
from common import LeanDriver, bits2f, digest, fbits
from runner_props import viol as rviol

import pams
from pams.index_market import IndexMarket
from pams.market import Market
from pams.order import LIMIT_ORDER, Order


def viol(prop, sig, requires, observed, inp):
    return {"signature": sig, "requires": requires, "observed": observed, "monitor": prop, "input": inp}


class _Fund:
    def __init__(self):
        self.prices = {}
        self._generated_until = 0


class _Sim:
    def __init__(self):
        self.fundamentals = _Fund()
        self.name2market = {}


def real_snap(price, tick, is_buy):
    """what the real `_add_order` accepts"""
    m = Market(market_id=0, prng=random.Random(0), simulator=_Sim(), name="m")
    m.setup({"tickSize": tick, "marketPrice": 100.0})
    m._update_time(next_fundamental_price=100.0)
    o = Order(agent_id=0, market_id=0, is_buy=is_buy, kind=LIMIT_ORDER, volume=1, price=price)
    with warnings.catch_warnings():
        warnings.simplefilter("ignore")
        log = m._add_order(o)
    return log.price


def gen_C19(rng, n):
    for i in range(n):
        fam = rng.choice(["exact", "exact", "general", "general", "small", "huge"])
        if fam == "exact":
            tick = 2.0 ** rng.randint(-6, 3)
            price = rng.randint(1, 1 << 16) * 2.0 ** rng.randint(-9, 2)
        elif fam == "general":
            tick = rng.choice([0.01, 0.1, 0.3, 1e-5, 0.05, 1.0, 7.0, 0.25])
            price = rng.choice([rng.uniform(0.5, 2000.0), round(rng.uniform(1, 500), 2), rng.randint(1, 1000) * tick])
        elif fam == "small":
            tick = rng.choice([0.5, 1.0, 10.0, 0.01])
            price = rng.uniform(1e-9, 1.0) * tick            # below one tick
        else:
            tick = rng.choice([0.01, 1.0])
            price = rng.uniform(1e6, 1e9)
        yield {"family": fam, "price": price, "tick": tick, "buy": rng.random() < 0.5}


def mon_C19(inp, got):
    """direction, less-than-one-tick, on-grid identity — in exact rational arithmetic"""
    p, t = Fraction(inp["price"]), Fraction(inp["tick"])
    g = Fraction(got)
    out = []
    on_grid = (p / t).denominator == 1
    # float representation slack of the grid: a few ulps of the price
    slack = Fraction(abs(inp["price"])) * Fraction(1, 2 ** 50) if inp["family"] != "exact" else 0
    if on_grid:
        if g != p:
            out.append(viol("C19", "C19/on-grid-price-changed", "a price already on the grid is accepted unchanged",
                            {"accepted": got}, inp))
        return out
    if inp["buy"]:
        if g > p + slack:
            out.append(viol("C19", "C19/buy-price-rounded-up", "an off-grid buy price moves downwards (never more aggressive)", {"accepted": got}, inp))
        if not (p - t - slack < g):
            out.append(viol("C19", "C19/moved-by-a-tick-or-more", "the price moves by less than one tick", {"accepted": got}, inp))
    else:
        if g < p - slack:
            out.append(viol("C19", "C19/sell-price-rounded-down", "an off-grid sell price moves upwards (never more aggressive)", {"accepted": got}, inp))
        if not (g < p + t + slack):
            out.append(viol("C19", "C19/moved-by-a-tick-or-more", "the price moves by less than one tick", {"accepted": got}, inp))
    k = g / t
    if abs(k - round(k)) > Fraction(1, 2 ** 40) and inp["family"] == "exact":
        out.append(viol("C19", "C19/accepted-price-off-grid", "the accepted price is on the grid", {"accepted": got}, inp))
    float_grid = (round(inp["price"] / inp["tick"]) * inp["tick"] == inp["price"])
    if g == p and not (inp["family"] != "exact" and float_grid):
        out.append(viol("C19", "C19/off-grid-price-not-moved", "an off-grid limit price is moved onto the grid before acceptance", {"accepted": got}, inp))
    return out


def run_C19(ctx, model_available=True):
    rng = ctx.rng("C19")
    n = 3000 * (ctx.scale if ctx.tier == "thorough" else 1)
    cases, lines, gots = [], [], []
    violations, diffs = [], []
    dist = {"exact": 0, "general": 0, "small": 0, "huge": 0, "on_grid": 0, "off_grid": 0}
    seen, nontriv = set(), set()
    max_gap_ulp = 0.0
    for inp in gen_C19(rng, n):
        got = real_snap(inp["price"], inp["tick"], inp["buy"])
        cases.append(inp)
        gots.append(got)
        h = digest(inp)
        seen.add(h)
        p, t = Fraction(inp["price"]), Fraction(inp["tick"])
        og = (p / t).denominator == 1
        dist[inp["family"]] += 1
        dist["on_grid" if og else "off_grid"] += 1
        if not og:
            nontriv.add(h)
        for v in mon_C19(inp, got):
            if not any(x["signature"] == v["signature"] for x in violations):
                violations.append(v)
        lines.append("snap %s %s %s" % ("1" if inp["buy"] else "0", fbits(inp["price"]), fbits(inp["tick"])))
        lines.append("snapf %s %s %s" % ("1" if inp["buy"] else "0", fbits(inp["price"]), fbits(inp["tick"])))
    compared = 0
    if model_available:
        out, err, dt = LeanDriver("Pure").run(lines)
        if out is None:
            diffs.append({"channel": "driver", "detail": err[-1500:]})
        else:
            corner = 0
            for k, (inp, got) in enumerate(zip(cases, gots)):
                o, of = out[2 * k], out[2 * k + 1]
                compared += 1
                _, num, den = o.split()
                model = Fraction(int(num), int(den))
                modelf = bits2f(of.split()[1])
                g = Fraction(got)
                if inp["family"] == "exact":
                    if model != g:
                        diffs.append({"channel": "snap.exact", "model": str(model), "impl": got, "input": inp})
                if modelf != got:
                    diffs.append({"channel": "snap.float", "model": modelf, "impl": got, "input": inp})
                ulp = Fraction(math.ulp(inp["price"]))
                gap = abs(model - g) / ulp if ulp else 0
                if abs(model - g) * 2 >= abs(Fraction(inp["tick"])):
                    corner += 1          # price/tick rounds to an integer in doubles: float grid point
                else:
                    max_gap_ulp = max(max_gap_ulp, float(gap))
            dist["float_grid_corner_cases"] = corner
    return {"evaluations": len(seen), "distinct_nontrivial": len(nontriv),
            "rule": "generated (price, tick, side): exact family (tick a power of two, price with few significant bits: every float operation is exact, implementation must equal the rational model exactly), general family (ticks 0.01, 0.1, 0.3, 1e-5 ... arbitrary and on-grid prices), prices below one tick, huge prices; non-trivial = off-grid price; distinct = hash of the input",
            "samples": cases[:3], "violations": violations, "diffs": diffs[:30],
            "comparisons": {"snap_results_compared": compared}, "traces_validated": compared,
            "distribution": dist, "monitor_checks": len(cases), "float_gap": {"max_gap_in_ulp_of_price_general_family": max_gap_ulp}}


def replay_C19(obj):
    inp = obj["input"]
    got = real_snap(inp["price"], inp["tick"], inp["buy"])
    return {"violations": [{"signature": v["signature"], "observed": v["observed"]} for v in mon_C19(inp, got)]}
