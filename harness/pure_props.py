"""Pure numeric properties: C19 (tick snapping), C17 (index values)."""
import math
import random
import warnings
from fractions import Fraction

import common
from common import LeanDriver, bits2f, digest, fbits
from runner_props import viol as rviol

import pams
from pams.index_market import IndexMarket
from pams.market import Market
from pams.order import LIMIT_ORDER, Order


def viol(prop, sig, requires, observed, inp):
    return {"signature": sig, "requires": requires, "observed": observed, "monitor": prop, "input": inp}


class _Fund:
    def __init__(self):
        self.prices = {}
        self._generated_until = 0


class _Sim:
    def __init__(self):
        self.fundamentals = _Fund()
        self.name2market = {}


def real_snap(price, tick, is_buy):
    """what the real `_add_order` accepts"""
    m = Market(market_id=0, prng=random.Random(0), simulator=_Sim(), name="m")
    m.setup({"tickSize": tick, "marketPrice": 100.0})
    m._update_time(next_fundamental_price=100.0)
    o = Order(agent_id=0, market_id=0, is_buy=is_buy, kind=LIMIT_ORDER, volume=1, price=price)
    with warnings.catch_warnings():
        warnings.simplefilter("ignore")
        log = m._add_order(o)
    return log.price


def real_snap_seq(calls):
    """several markets (one per distinct tick size) alive together in one process; the calls are made
    in order and every accepted price is returned.  State that leaks from one market into another
    (a shared cache, a class-level table) shows here and not with one fresh market per call."""
    pool = {}
    out = []
    for price, tick, is_buy in calls:
        if tick not in pool:
            m = Market(market_id=len(pool), prng=random.Random(0), simulator=_Sim(), name="m%d" % len(pool))
            m.setup({"tickSize": tick, "marketPrice": 100.0})
            m._update_time(next_fundamental_price=100.0)
            pool[tick] = m
        m = pool[tick]
        o = Order(agent_id=0, market_id=m.market_id, is_buy=is_buy, kind=LIMIT_ORDER, volume=1, price=price)
        with warnings.catch_warnings():
            warnings.simplefilter("ignore")
            log = m._add_order(o)
        out.append(log.price)
    return out


def gen_C19_groups(rng, n):
    """the same raw price and side sent to markets with different tick sizes, and repeated"""
    for i in range(n):
        if rng.random() < 0.6:
            ticks = rng.sample([2.0 ** k for k in range(-4, 3)], rng.choice([2, 3]))
            price = rng.randint(1, 1 << 12) * 2.0 ** rng.randint(-7, 0)
            fam = "exact"
        else:
            ticks = rng.sample([0.01, 0.1, 0.3, 0.05, 1.0, 7.0, 0.25], rng.choice([2, 3]))
            price = rng.choice([rng.uniform(0.5, 2000.0), round(rng.uniform(1, 500), 2)])
            fam = "general"
        buy = rng.random() < 0.5
        calls = [(price, t, buy) for t in ticks]
        if rng.random() < 0.5:
            calls.append((price, ticks[0], buy))
        if rng.random() < 0.3:
            calls.append((price, ticks[-1], not buy))
        yield fam, calls


def gen_C19(rng, n):
    for i in range(n):
        fam = rng.choice(["exact", "exact", "general", "general", "small", "huge", "near"])
        if fam == "near":
            # exactly representable prices a hair off a grid line (2^-20 … 2^-44 away, either side):
            # every float operation involved is exact, so the exact statement applies in full
            fam = "exact"
            tick = 2.0 ** rng.randint(-3, 1)
            k = rng.randint(1, 60)
            price = k * tick + rng.choice([-1, 1]) * 2.0 ** -rng.randint(20, 44)
        elif fam == "exact":
            tick = 2.0 ** rng.randint(-6, 3)
            price = rng.randint(1, 1 << 16) * 2.0 ** rng.randint(-9, 2)
        elif fam == "general":
            tick = rng.choice([0.01, 0.1, 0.3, 1e-5, 0.05, 1.0, 7.0, 0.25])
            price = rng.choice([rng.uniform(0.5, 2000.0), round(rng.uniform(1, 500), 2), rng.randint(1, 1000) * tick])
        elif fam == "small":
            tick = rng.choice([0.5, 1.0, 10.0, 0.01])
            price = rng.uniform(1e-9, 1.0) * tick            # below one tick
        else:
            tick = rng.choice([0.01, 1.0])
            price = rng.uniform(1e6, 1e9)
        yield {"family": fam, "price": price, "tick": tick, "buy": rng.random() < 0.5}


def mon_C19(inp, got):
    """direction, less-than-one-tick, on-grid identity — in exact rational arithmetic"""
    p, t = Fraction(inp["price"]), Fraction(inp["tick"])
    g = Fraction(got)
    out = []
    on_grid = (p / t).denominator == 1
    # float representation slack of the grid: a few ulps of the price
    slack = Fraction(abs(inp["price"])) * Fraction(1, 2 ** 50) if inp["family"] != "exact" else 0
    if on_grid:
        if g != p:
            out.append(viol("C19", "C19/on-grid-price-changed", "a price already on the grid is accepted unchanged",
                            {"accepted": got}, inp))
        return out
    if inp["buy"]:
        if g > p + slack:
            out.append(viol("C19", "C19/buy-price-rounded-up", "an off-grid buy price moves downwards (never more aggressive)", {"accepted": got}, inp))
        if not (p - t - slack < g):
            out.append(viol("C19", "C19/moved-by-a-tick-or-more", "the price moves by less than one tick", {"accepted": got}, inp))
    else:
        if g < p - slack:
            out.append(viol("C19", "C19/sell-price-rounded-down", "an off-grid sell price moves upwards (never more aggressive)", {"accepted": got}, inp))
        if not (g < p + t + slack):
            out.append(viol("C19", "C19/moved-by-a-tick-or-more", "the price moves by less than one tick", {"accepted": got}, inp))
    k = g / t
    if abs(k - round(k)) > Fraction(1, 2 ** 40) and inp["family"] == "exact":
        out.append(viol("C19", "C19/accepted-price-off-grid", "the accepted price is on the grid", {"accepted": got}, inp))
    float_grid = (round(inp["price"] / inp["tick"]) * inp["tick"] == inp["price"])
    if g == p and not (inp["family"] != "exact" and float_grid):
        out.append(viol("C19", "C19/off-grid-price-not-moved", "an off-grid limit price is moved onto the grid before acceptance", {"accepted": got}, inp))
    return out


def run_C19(ctx, model_available=True):
    rng = ctx.rng("C19")
    n = 3000 * (ctx.scale if ctx.tier == "thorough" else 1)
    cases, lines, gots = [], [], []
    violations, diffs = [], []
    dist = {"exact": 0, "general": 0, "small": 0, "huge": 0, "on_grid": 0, "off_grid": 0}
    seen, nontriv = set(), set()
    max_gap_ulp = 0.0
    for inp in gen_C19(rng, n):
        got = real_snap(inp["price"], inp["tick"], inp["buy"])
        cases.append(inp)
        gots.append(got)
        h = digest(inp)
        seen.add(h)
        p, t = Fraction(inp["price"]), Fraction(inp["tick"])
        og = (p / t).denominator == 1
        dist[inp["family"]] += 1
        dist["on_grid" if og else "off_grid"] += 1
        if not og:
            nontriv.add(h)
        for v in mon_C19(inp, got):
            if not any(x["signature"] == v["signature"] for x in violations):
                violations.append(v)
        lines.append("snap %s %s %s" % ("1" if inp["buy"] else "0", fbits(inp["price"]), fbits(inp["tick"])))
        lines.append("snapf %s %s %s" % ("1" if inp["buy"] else "0", fbits(inp["price"]), fbits(inp["tick"])))
    # several markets alive together: same raw price, different tick sizes (fresh pool per group)
    n_groups = 150 * (ctx.scale if ctx.tier == "thorough" else 1)
    dist["pooled_calls"] = 0
    for fam, calls in gen_C19_groups(ctx.rng("C19", "groups"), n_groups):
        res = real_snap_seq(calls)
        for j, ((price, tick, buy), got) in enumerate(zip(calls, res)):
            inp = {"family": fam, "price": price, "tick": tick, "buy": buy, "prior": [list(c) for c in calls[:j]]}
            cases.append(inp)
            gots.append(got)
            seen.add(digest(inp))
            dist["pooled_calls"] += 1
            for v in mon_C19(inp, got):
                if not any(x["signature"] == v["signature"] for x in violations):
                    violations.append(v)
            lines.append("snap %s %s %s" % ("1" if buy else "0", fbits(price), fbits(tick)))
            lines.append("snapf %s %s %s" % ("1" if buy else "0", fbits(price), fbits(tick)))
    compared = 0
    if model_available:
        out, err, dt = LeanDriver("Pure").run(lines)
        if out is None:
            diffs.append({"channel": "driver", "detail": err[-1500:]})
        else:
            corner = 0
            for k, (inp, got) in enumerate(zip(cases, gots)):
                o, of = out[2 * k], out[2 * k + 1]
                compared += 1
                _, num, den = o.split()
                model = Fraction(int(num), int(den))
                modelf = bits2f(of.split()[1])
                g = Fraction(got)
                if inp["family"] == "exact":
                    if model != g:
                        diffs.append({"channel": "snap.exact", "model": str(model), "impl": got, "input": inp})
                if modelf != got:
                    diffs.append({"channel": "snap.float", "model": modelf, "impl": got, "input": inp})
                ulp = Fraction(math.ulp(inp["price"]))
                gap = abs(model - g) / ulp if ulp else 0
                if abs(model - g) * 2 >= abs(Fraction(inp["tick"])):
                    corner += 1          # price/tick rounds to an integer in doubles: float grid point
                else:
                    max_gap_ulp = max(max_gap_ulp, float(gap))
            dist["float_grid_corner_cases"] = corner
    return {"evaluations": len(seen), "distinct_nontrivial": len(nontriv),
            "rule": "generated (price, tick, side): exact family (tick a power of two, price with few significant bits: every float operation is exact, implementation must equal the rational model exactly), general family (ticks 0.01, 0.1, 0.3, 1e-5 ... arbitrary and on-grid prices), prices below one tick, huge prices; non-trivial = off-grid price; distinct = hash of the input",
            "samples": cases[:3], "violations": violations, "diffs": diffs[:30],
            "comparisons": {"snap_results_compared": compared}, "traces_validated": compared,
            "distribution": dist, "monitor_checks": len(cases), "float_gap": {"max_gap_in_ulp_of_price_general_family": max_gap_ulp}}


def replay_C19(obj):
    inp = obj["input"]
    if inp.get("prior"):
        got = real_snap_seq([tuple(c) for c in inp["prior"]] + [(inp["price"], inp["tick"], inp["buy"])])[-1]
    else:
        got = real_snap(inp["price"], inp["tick"], inp["buy"])
    return {"violations": [{"signature": v["signature"], "observed": v["observed"]} for v in mon_C19(inp, got)]}


# ---------------------------------------------------------------------------------------------
# C17 index markets
# ---------------------------------------------------------------------------------------------
def run_C17(ctx, model_available=True):
    import runner_checks as rc
    rng = ctx.rng("C17")
    n = 40 * (ctx.scale if ctx.tier == "thorough" else 1)
    violations, diffs, samples = [], [], []
    lines, expect = [], []
    seen, nontriv = set(), set()
    checks = 0
    dist = {"runs": 0, "index_values_checked": 0, "unequal_shares_runs": 0, "components": {}}
    for i in range(n):
        k = rng.choice([2, 3, 4, 5])
        cfg = rc.gen_config(rng, opts={"n_markets": k, "index": True, "equal_shares": rng.random() < 0.2,
                                       "n_normal": rng.choice([3, 6]), "steps": rng.choice([5, 10, 30]),
                                       "extra_after_index": rng.random() < 0.3, "nested_index": i % 3 == 1})
        for nm in cfg["simulation"]["markets"]:
            if nm.startswith("M") and "outstandingShares" in cfg[nm] and rng.random() < 0.7:
                cfg[nm]["outstandingShares"] = rng.choice([1, 7, 1000, 25000, 123456])
        for s in cfg["simulation"]["sessions"]:
            s["withOrderPlacement"] = True
            s["withOrderExecution"] = rng.random() < 0.85
            s["maxNormalOrders"] = max(2, s["maxNormalOrders"])
        seed = rng.randint(0, 2 ** 31)
        malformed = None
        if i % 5 == 4:
            # malformed stream: a component listed twice / a component that declares no outstanding
            # shares — must be refused (or at least never be counted twice)
            comps_cfg = cfg["IDX"]["markets"]
            if rng.random() < 0.7:
                comps_cfg.insert(rng.randint(0, len(comps_cfg)), rng.choice(comps_cfg))
                malformed = "duplicate-component"
            else:
                cfg[comps_cfg[0]].pop("outstandingShares", None)
                malformed = "component-without-shares"
            dist.setdefault("malformed", {}).setdefault(malformed, 0)
            dist["malformed"][malformed] += 1
        inp = {"kind": "simulation", "config": cfg, "seed": seed}
        run = rc.run_sim(cfg, seed)
        if malformed is not None and (run.sim is None or run.error is not None):
            seen.add(digest([cfg, seed]))
            checks += 1
            continue            # refused, as it must be
        if malformed is not None:
            checks += 1
            violations.append(viol("C17", "C17/malformed-components-accepted:" + malformed,
                                   "components must be distinct markets that declare outstanding shares",
                                   {"components": cfg["IDX"]["markets"]}, inp))
            continue
        if run.sim is None or run.error is not None:
            violations.append(viol("C17", "C17/run-raised:" + (run.error[0] if run.error else "?"), "index runs complete",
                                   {"error": run.error and run.error[:3]}, inp))
            continue
        h = digest([cfg, seed])
        seen.add(h)
        dist["runs"] += 1
        idx = [m for m in run.sim.markets if isinstance(m, IndexMarket)]
        for im in idx:
            comps = im.get_components()
            shares = [c.outstanding_shares for c in comps]
            dist["components"][len(comps)] = dist["components"].get(len(comps), 0) + 1
            if len(set(shares)) > 1:
                dist["unequal_shares_runs"] += 1
                nontriv.add(h)
            if len({id(c) for c in comps}) != len(comps) or any(s is None for s in shares):
                violations.append(viol("C17", "C17/components-not-distinct-with-shares", "components are distinct markets that declare outstanding shares", {"shares": shares}, inp))
            T = im.get_time()
            for t in range(0, T + 1):
                checks += 1
                mp = [c.get_market_price(t) for c in comps]
                fp = [c.get_fundamental_price(t) for c in comps]
                want_m = sum(Fraction(p) * s for p, s in zip(mp, shares)) / sum(shares)
                want_f = sum(Fraction(p) * s for p, s in zip(fp, shares)) / sum(shares)
                got_m = im.get_market_index(t)
                got_i = im.get_index(t)
                got_c = im.compute_market_index(t)
                got_f = im.get_fundamental_price(t)
                got_fi = im.get_fundamental_index(t)
                dist["index_values_checked"] += 1
                for name, got, want in (("index", got_i, want_m), ("market_index", got_m, want_m),
                                        ("compute_market_index", got_c, want_m),
                                        ("recorded_fundamental", got_f, want_f), ("fundamental_index", got_fi, want_f)):
                    if not math.isclose(got, float(want), rel_tol=1e-12):
                        v = viol("C17", "C17/%s-not-share-weighted-average" % name,
                                 "index value / recorded fundamental = share-weighted average of the components' market / fundamental prices at that time",
                                 {"time": t, "got": got, "expected": float(want), "prices": mp if "fund" not in name else fp, "shares": shares}, inp)
                        if not any(x["signature"] == v["signature"] for x in violations):
                            violations.append(v)
                lo, hi = min(mp), max(mp)
                if not (lo - 1e-9 * abs(lo) <= got_i <= hi + 1e-9 * abs(hi)):
                    violations.append(viol("C17", "C17/index-outside-component-range", "a weighted average lies between the smallest and largest component price",
                                           {"time": t, "index": got_i, "prices": mp}, inp))
                if t % 3 == 0 or t == T:
                    lines.append("index %d %s" % (len(comps), " ".join("%s %d" % (fbits(p), s) for p, s in zip(mp, shares))))
                    expect.append((got_i, {"prices": mp, "shares": shares, "time": t, "seed": seed}))
        if len(samples) < 2 and idx:
            samples.append({"markets": cfg["simulation"]["markets"], "shares": [c.outstanding_shares for c in idx[0].get_components()], "seed": seed,
                            "index_last": idx[0].get_index()})
    # "at any time": queries repeated within one step while component prices move, and across steps
    import agents_props as ap
    for i in range(n):
        k = rng.choice([2, 3, 4])
        sim, mks, im = ap.mk_world(rng, k, index=True, equal_shares=rng.random() < 0.2)
        shares = [c.outstanding_shares for c in mks]
        shares0 = list(shares)
        script = []
        for j in range(rng.randint(4, 12)):
            r = rng.random()
            if r < 0.6:
                c = rng.randrange(k)
                px = round(rng.uniform(250, 350), 2)
                ap.trade(mks[c], px)
                script.append(["trade", c, px])
            elif r < 0.75:
                sim._update_times_on_markets(sim.markets)
                script.append(["tick"])
            elif r < 0.85:
                # a share issuance / buy-back on a component: "weighted by their outstanding shares"
                # means the shares outstanding now
                c = rng.randrange(k)
                sh = rng.choice([1, 500, 1000, 2500, 100000])
                mks[c].outstanding_shares = sh
                shares = [c_.outstanding_shares for c_ in mks]
                script.append(["shares", c, sh])
                dist["share_changes"] = dist.get("share_changes", 0) + 1
            else:
                script.append(["query"])
            mp = [c.get_market_price() for c in mks]
            want = sum(Fraction(p) * sh for p, sh in zip(mp, shares)) / sum(shares)
            fpn = [c.get_fundamental_price() for c in mks]
            want_fn = sum(Fraction(p) * sh for p, sh in zip(fpn, shares)) / sum(shares)
            checks += 1
            dist["index_values_checked"] += 1
            cands = [("index", im.get_index(), want), ("market_index", im.get_market_index(), want),
                     ("compute_market_index", im.compute_market_index(), want),
                     ("compute_fundamental_index", im.compute_fundamental_index(), want_fn)]
            if script[-1][0] == "tick":
                # what the index *records* when the clock advances (later share changes do not rewrite it)
                cands.append(("recorded_fundamental", im.get_fundamental_price(), want_fn))
                cands.append(("fundamental_index", im.get_fundamental_index(), want_fn))
            for name, got, want in cands:
                if not math.isclose(got, float(want), rel_tol=1e-12):
                    v = viol("C17", "C17/%s-not-share-weighted-average" % name,
                             "index value / recorded fundamental = share-weighted average of the components' market / fundamental prices at that time",
                             {"got": got, "expected": float(want), "prices": mp, "shares": shares, "after": list(script)},
                             {"kind": "index-script", "n": k, "shares": shares0, "script": list(script)})
                    if not any(x["signature"] == v["signature"] for x in violations):
                        violations.append(v)
            lines.append("index %d %s" % (k, " ".join("%s %d" % (fbits(p), sh) for p, sh in zip(mp, shares))))
            expect.append((im.get_index(), {"prices": mp, "shares": list(shares), "script": list(script)}))
        seen.add(digest(["script", shares, script]))
    compared = 0
    if model_available and lines:
        out, err, dt = LeanDriver("Pure").run(lines)
        if out is None:
            diffs.append({"channel": "driver", "detail": err[-1500:]})
        else:
            for o, (got, inp) in zip(out, expect):
                compared += 1
                model = bits2f(o.split()[1])
                if model != got:
                    diffs.append({"channel": "index.value", "model": model, "impl": got, "input": inp})
    return {"evaluations": len(seen), "distinct_nontrivial": len(nontriv),
            "rule": "index markets driven directly through the market API: component prices moved by trades, the index queried after every move, several times within one step and across steps; one run in five with a malformed component list (duplicate / no outstanding shares) that must be refused; random runs with an index market over 2-5 component markets with random (mostly unequal) outstanding shares, optional extra market after the index; every time step of every run is checked against exact rational weighted averages; non-trivial = run with unequal shares",
            "samples": samples, "violations": violations, "diffs": diffs[:30],
            "comparisons": {"index_values_compared_bitwise": compared}, "traces_validated": compared,
            "distribution": dist, "monitor_checks": checks}


def replay_C17(obj):
    import runner_checks as rc
    inp = obj["input"]
    if inp.get("kind") == "index-script":
        import agents_props as ap
        rng = random.Random(0)
        sim, mks, im = ap.mk_world(rng, inp["n"], index=True, equal_shares=len(set(inp["shares"])) == 1)
        shares = [c.outstanding_shares for c in mks]
        out = []
        for st in inp["script"]:
            if st[0] == "trade":
                ap.trade(mks[st[1]], st[2])
            elif st[0] == "tick":
                sim._update_times_on_markets(sim.markets)
            elif st[0] == "shares":
                mks[st[1]].outstanding_shares = st[2]
                shares = [c.outstanding_shares for c in mks]
            want = sum(Fraction(c.get_market_price()) * sh for c, sh in zip(mks, shares)) / sum(shares)
            wantf = sum(Fraction(c.get_fundamental_price()) * sh for c, sh in zip(mks, shares)) / sum(shares)
            for name, got in (("index", im.get_index()), ("market_index", im.get_market_index()),
                              ("compute_market_index", im.compute_market_index())):
                if not math.isclose(got, float(want), rel_tol=1e-12):
                    out.append({"signature": "C17/%s-not-share-weighted-average" % name, "observed": {"got": got, "expected": float(want)}})
            for name, got in ([("compute_fundamental_index", im.compute_fundamental_index())] +
                              ([("recorded_fundamental", im.get_fundamental_price()),
                                ("fundamental_index", im.get_fundamental_index())] if st[0] == "tick" else [])):
                if not math.isclose(got, float(wantf), rel_tol=1e-12):
                    out.append({"signature": "C17/%s-not-share-weighted-average" % name, "observed": {"got": got, "expected": float(wantf)}})
            for name, got in ():
                if not math.isclose(got, float(want), rel_tol=1e-12):
                    out.append({"signature": "C17/%s-not-share-weighted-average" % name, "observed": {"got": got, "expected": float(want)}})
        return {"violations": out[:3]}
    if "malformed-components-accepted" in obj.get("signature", ""):
        run = rc.run_sim(inp["config"], inp["seed"])
        ok = run.sim is None or run.error is not None
        return {"violations": [] if ok else [{"signature": obj["signature"], "observed": {"accepted": True}}]}
    run = rc.run_sim(inp["config"], inp["seed"])
    out = []
    for im in [m for m in run.sim.markets if isinstance(m, IndexMarket)]:
        comps = im.get_components()
        shares = [c.outstanding_shares for c in comps]
        for t in range(im.get_time() + 1):
            want = sum(Fraction(c.get_market_price(t)) * s for c, s in zip(comps, shares)) / sum(shares)
            wantf = sum(Fraction(c.get_fundamental_price(t)) * s for c, s in zip(comps, shares)) / sum(shares)
            if not math.isclose(im.get_index(t), float(want), rel_tol=1e-12):
                out.append({"signature": "C17/index-not-share-weighted-average", "observed": {"time": t}})
            if not math.isclose(im.get_fundamental_price(t), float(wantf), rel_tol=1e-12):
                out.append({"signature": "C17/recorded_fundamental-not-share-weighted-average", "observed": {"time": t}})
    return {"violations": out[:5]}
