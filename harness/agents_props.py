"""C20 — built-in agents: real agent objects on real markets steered into controlled states;
returned orders vs the Float instance of the Lean model (Driver/Pure.lean) and vs the documented
formulas evaluated independently."""
import math
import random
import warnings

import common
from common import LeanDriver, bits2f, digest, fbits, opt

import pams
from pams.agents import ArbitrageAgent, FCNAgent, MarketMakerAgent, MarketShareFCNAgent
from pams.index_market import IndexMarket
from pams.market import Market
from pams.order import LIMIT_ORDER, Cancel, Order
from pams.simulator import Simulator


def viol(sig, requires, observed, inp):
    return {"signature": sig, "requires": requires, "observed": observed, "monitor": "C20", "input": inp}


class RecGauss(random.Random):
    def __init__(self, seed):
        super().__init__(seed)
        self.draws = []
        self.choice_log = []

    def gauss(self, mu=0.0, sigma=1.0):
        x = super().gauss(mu, sigma)
        self.draws.append(x)
        return x

    def choices(self, population, weights=None, *, cum_weights=None, k=1):
        r = super().choices(population, weights=weights, cum_weights=cum_weights, k=k)
        self.choice_log.append((list(population), None if weights is None else list(weights), list(r)))
        return r


def mk_world(rng, n_markets, tick=0.01, index=False, equal_shares=True):
    sim = Simulator(prng=random.Random(rng.randint(0, 10 ** 9)))
    mks = []
    for i in range(n_markets):
        m = Market(market_id=i, prng=random.Random(i), simulator=sim, name="m%d" % i)
        m.setup({"tickSize": tick, "marketPrice": 300.0 + 10 * i, "outstandingShares": 1000 if equal_shares else 1000 + i})
        sim._add_market(m, group_name="g")
        sim.fundamentals.add_market(market_id=i, initial=300.0 + 10 * i, drift=0.0, volatility=0.0)
        mks.append(m)
    idx = None
    if index:
        idx = IndexMarket(market_id=n_markets, prng=random.Random(99), simulator=sim, name="idx")
        idx.setup({"tickSize": tick, "marketPrice": 300.0, "outstandingShares": 1000, "markets": [m.name for m in mks]})
        sim._add_market(idx, group_name="i")
    for m in sim.markets:
        m._is_running = True
    sim._update_times_on_markets(sim.markets)
    return sim, mks, idx


def trade(m, price, agent=90):
    """moves the market price of `m` to `price` by one self-contained trade"""
    with warnings.catch_warnings():
        warnings.simplefilter("ignore")
        m._add_order(Order(agent_id=agent, market_id=m.market_id, is_buy=False, kind=LIMIT_ORDER, volume=1, price=price))
        m._add_order(Order(agent_id=agent, market_id=m.market_id, is_buy=True, kind=LIMIT_ORDER, volume=1, price=price))
        return m._execution()


def well_formed(orders, agent, accessible, inp, out):
    for o in orders:
        if isinstance(o, Cancel):
            continue
        bad = []
        if o.agent_id != agent.agent_id:
            bad.append("foreign agent id")
        if o.market_id not in accessible:
            bad.append("inaccessible market")
        if o.volume <= 0 or (o.ttl is not None and o.ttl <= 0):
            bad.append("non-positive volume/ttl")
        if o.kind == LIMIT_ORDER and (o.price is None or not math.isfinite(o.price)):
            bad.append("limit order without finite price")
        if o.placed_at is not None or o.order_id is not None:
            bad.append("pre-stamped order")
        if bad:
            out.append(viol("C20/ill-formed-order:" + bad[0], "built-in agents only emit well-formed orders under their own id for markets they can access",
                            {"problems": bad, "order": repr(o)}, inp))


def run_C20(ctx, model_available=True):
    rng = ctx.rng("C20")
    scale = ctx.scale if ctx.tier == "thorough" else 1
    violations, diffs, samples = [], [], []
    lines, expects = [], []
    seen, nontriv = set(), set()
    checks = 0
    dist = {"fcn": {"buy": 0, "sell": 0, "none": 0}, "mm": {"quotes_base": 0, "market_price_base": 0},
            "arb": {"buy_index": 0, "sell_index": 0, "idle": 0, "at_threshold": 0}, "share_fcn": 0}

    def add_v(v):
        if not any(x["signature"] == v["signature"] for x in violations):
            violations.append(v)

    # ---- FCN --------------------------------------------------------------------------------
    for i in range(400 * scale):
        sim, mks, _ = mk_world(rng, 2)
        m = mks[0]
        a = FCNAgent(agent_id=7, prng=RecGauss(rng.randint(0, 10 ** 9)), simulator=sim, name="fcn")
        a.set_market_accessible(0)
        a.fundamental_weight = rng.choice([0.0, 1.0, rng.expovariate(1.0)])
        a.chart_weight = rng.choice([0.0, 0.0, rng.expovariate(1.0), 2.0])
        a.noise_weight = rng.choice([0.0, 1.0, rng.expovariate(1.0)])
        if a.fundamental_weight + a.chart_weight + a.noise_weight == 0:
            a.noise_weight = 1.0
        a.noise_scale = rng.choice([0.0, 0.001, 0.01])
        a.time_window_size = rng.choice([1, 5, 100, 150])
        a.mean_reversion_time = rng.choice([a.time_window_size, 50, 1])
        a.order_margin = rng.choice([0.0, 0.01, 0.1, 1.0, rng.random()])
        a.margin_type = 0
        a.is_chart_following = rng.random() < 0.8
        # steer: a few steps with trades and a fundamental away from the market price
        steps = rng.randint(0, 8)
        for s in range(steps):
            if rng.random() < 0.6:
                trade(m, round(300.0 * math.exp(rng.gauss(0, 0.02)), 2))
            m._update_time(next_fundamental_price=300.0 * math.exp(rng.gauss(0, 0.05)))
        mp = m.get_market_price()
        fund = m.get_fundamental_price()
        time = m.get_time()
        tw = min(time, a.time_window_size)
        mp_past = m.get_market_price(time - tw)
        inp = {"kind": "fcn", "mp": mp, "fund": fund, "mp_past": mp_past, "wf": a.fundamental_weight,
               "wc": a.chart_weight, "wn": a.noise_weight, "noise_scale": a.noise_scale, "window": a.time_window_size,
               "mrt": a.mean_reversion_time, "margin": a.order_margin, "chart_following": a.is_chart_following, "time": time}
        orders = a.submit_orders(markets=sim.markets)
        g = a.prng.draws[0]
        noise = a.noise_scale * g
        inp["gauss"] = g
        h = digest(inp)
        seen.add(h)
        checks += 1
        well_formed(orders, a, {0}, inp, violations)
        # documented formula, evaluated independently
        F = math.log(fund / mp) / max(a.mean_reversion_time, 1)
        C = math.log(mp / mp_past) / max(tw, 1) * (1 if a.is_chart_following else -1)
        elr = (a.fundamental_weight * F + a.chart_weight * C + a.noise_weight * noise) / (a.fundamental_weight + a.chart_weight + a.noise_weight)
        exp_price = mp * math.exp(elr * a.time_window_size)
        # every term exactly zero => expected price == market price exactly: decisive (no order);
        # merely close => rounding may decide either way: not judged
        exact_tie = (a.fundamental_weight * F == 0.0 and a.chart_weight * C == 0.0 and a.noise_weight * noise == 0.0)
        margin_edge = abs(exp_price - mp) <= 1e-9 * mp and not exact_tie
        sides = [o.is_buy for o in orders]
        if exact_tie:
            nontriv.add(h)
            if orders:
                add_v(viol("C20/fcn-order-at-exact-tie", "an FCN agent buys exactly when its expected future price exceeds the market price and sells when it is below (neither when they are equal)",
                           {"sides": sides, "expected_price": exp_price, "market_price": mp}, inp))
        if not margin_edge and not exact_tie:
            want = [True] if exp_price > mp else [False]
            nontriv.add(h)
            if sides != want:
                add_v(viol("C20/fcn-wrong-side", "an FCN agent buys exactly when its expected future price exceeds the market price and sells when it is below",
                           {"sides": sides, "expected_price": exp_price, "market_price": mp}, inp))
        if len(orders) > 1:
            add_v(viol("C20/fcn-both-sides", "never both", {"sides": sides}, inp))
        for o in orders:
            dist["fcn"]["buy" if o.is_buy else "sell"] += 1
            wantp = exp_price * (1 - a.order_margin) if o.is_buy else exp_price * (1 + a.order_margin)
            if not math.isclose(o.price, wantp, rel_tol=1e-9, abs_tol=1e-12):
                add_v(viol("C20/fcn-price-not-shaded-expected-price", "quotes the expected price shaded by its margin",
                           {"price": o.price, "expected": wantp, "is_buy": o.is_buy}, inp))
            if o.volume != 1 or o.ttl != a.time_window_size or o.kind != LIMIT_ORDER:
                add_v(viol("C20/fcn-order-fields", "volume 1, lifetime = window, limit order", {"order": repr(o)}, inp))
        if not orders:
            dist["fcn"]["none"] += 1
        lines.append("fcn %s %s %s %s %s %s %s %s %d %d %d %s" % (
            fbits(mp), fbits(fund), fbits(mp_past), fbits(a.fundamental_weight), fbits(a.chart_weight),
            fbits(a.noise_weight), fbits(noise), fbits(a.order_margin), tw, a.mean_reversion_time,
            a.time_window_size, "1" if a.is_chart_following else "0"))
        expects.append(("fcn", [(o.is_buy, o.price, o.volume, o.ttl) for o in orders], inp, margin_edge))
        if len(samples) < 1 and orders:
            samples.append({"fcn_state": inp, "orders": [(o.is_buy, o.price) for o in orders]})
        # MarketShareFCN: exactly one accessible market
        if i % 10 == 0:
            b = MarketShareFCNAgent(agent_id=8, prng=RecGauss(rng.randint(0, 10 ** 9)), simulator=sim, name="msfcn")
            for mid in (0, 1):
                b.set_market_accessible(mid)
            for attr in ("fundamental_weight", "chart_weight", "noise_weight", "noise_scale", "time_window_size",
                         "mean_reversion_time", "order_margin", "margin_type", "is_chart_following"):
                setattr(b, attr, getattr(a, attr))
            os_ = b.submit_orders(markets=sim.markets)
            dist["share_fcn"] += 1
            checks += 1
            well_formed(os_, b, {0, 1}, inp, violations)
            if len({o.market_id for o in os_}) > 1:
                add_v(viol("C20/marketshare-fcn-several-markets", "a market-share FCN agent acts on exactly one chosen accessible market", {"markets": [o.market_id for o in os_]}, inp))

    # ---- market-share FCN: the market is drawn with weights = volume traded in the recent window -------
    for i in range(60 * scale):
        nm = rng.choice([2, 3])
        sim, mks, _ = mk_world(rng, nm)
        b = MarketShareFCNAgent(agent_id=8, prng=RecGauss(rng.randint(0, 10 ** 9)), simulator=sim, name="msfcn")
        acc = sorted(rng.sample(range(nm), rng.randint(1, nm)))
        for mid in acc:
            b.set_market_accessible(mid)
        b.fundamental_weight, b.chart_weight, b.noise_weight = 1.0, rng.choice([0.0, 1.0]), 1.0
        b.noise_scale = 0.001
        b.time_window_size = rng.choice([1, 2, 3, 5, 8, 100])
        b.mean_reversion_time = 50
        b.order_margin = 0.01
        b.margin_type = 0
        b.is_chart_following = True
        # trades early and late; the clock ends before, inside (also in its second half) or beyond the window
        w = b.time_window_size
        T = rng.choice([0, 1, w // 2, (w // 2 + w) // 2 if w < 50 else rng.randint(50, 99), max(w - 1, 0), w, w + 1, 2 * w + 1] if w < 50
                       else [0, 3, 49, 50, 51, 75, 99, 100, 101, 130])
        vols = {m.market_id: [0] * (T + 1) for m in mks}
        for t in range(T + 1):
            for m in mks:
                if rng.random() < (0.7 if t <= 2 else 0.25):
                    for _ in range(rng.randint(1, 3)):
                        # the volume that really traded (a price that is off the grid in doubles is snapped apart)
                        fills = trade(m, round(m.get_market_price() * math.exp(rng.gauss(0, 0.002)), 2))
                        vols[m.market_id][t] += sum(f.volume for f in fills)
            if t < T:
                for m in mks:
                    m._update_time(next_fundamental_price=m.get_fundamental_price())
        inp = {"kind": "msfcn", "window": w, "time": T, "accessible": acc, "traded_volume_per_step": {str(k): v for k, v in vols.items()}}
        os_ = b.submit_orders(markets=sim.markets)
        dist["share_fcn"] += 1
        checks += 1
        seen.add(digest(inp))
        nontriv.add(digest(inp))
        well_formed(os_, b, set(acc), inp, violations)
        log = b.prng.choice_log
        want_w = [float(sum(vols[mid][max(0, T - w): T + 1])) + 1e-10 for mid in acc]
        if len(log) != 1 or [m.market_id for m in log[0][0]] != acc:
            add_v(viol("C20/marketshare-fcn-choice-not-over-accessible-markets", "the market is chosen among the accessible markets",
                       {"choices": [[m.market_id for m in c[0]] for c in log]}, inp))
        elif log[0][1] != want_w:
            add_v(viol("C20/marketshare-fcn-weights-not-recent-volume",
                       "the market is chosen by the volume traded on it in the last `timeWindowSize` steps (up to now)",
                       {"weights": log[0][1], "expected": want_w}, inp))
        elif any(o.market_id != log[0][2][0].market_id for o in os_):
            add_v(viol("C20/marketshare-fcn-order-not-on-chosen-market", "FCN order on the chosen market only",
                       {"chosen": log[0][2][0].market_id, "orders": [o.market_id for o in os_]}, inp))

    # ---- market maker -----------------------------------------------------------------------
    for i in range(200 * scale):
        sim, mks, _ = mk_world(rng, 3)
        a = MarketMakerAgent(agent_id=3, prng=random.Random(1), simulator=sim, name="mm")
        acc = rng.sample([0, 1, 2], rng.randint(1, 3))
        for mid in acc:
            a.set_market_accessible(mid)
        a.target_market = mks[acc[0]]
        a.net_interest_spread = rng.choice([0.0, 0.01, 0.02, rng.random() * 0.1])
        a.order_time_length = rng.choice([1, 2, 10])
        for m in mks:
            for _ in range(rng.randint(0, 3)):
                buy = rng.random() < 0.5
                px = round(m.get_market_price() * (1 + (-1 if buy else 1) * rng.uniform(0.001, 0.05)), 2)
                with warnings.catch_warnings():
                    warnings.simplefilter("ignore")
                    m._add_order(Order(agent_id=50, market_id=m.market_id, is_buy=buy, kind=LIMIT_ORDER, volume=1, price=px))
            if rng.random() < 0.15:
                with warnings.catch_warnings():
                    warnings.simplefilter("ignore")
                    from pams.order import MARKET_ORDER
                    m._add_order(Order(agent_id=50, market_id=m.market_id, is_buy=rng.random() < 0.5, kind=MARKET_ORDER, volume=1))
        bids = [mks[j].get_best_buy_price() for j in acc if mks[j].get_best_buy_price() is not None]
        asks = [mks[j].get_best_sell_price() for j in acc if mks[j].get_best_sell_price() is not None]
        fund = a.target_market.get_fundamental_price()
        mp = a.target_market.get_market_price()
        inp = {"kind": "mm", "accessible": acc, "bids": bids, "asks": asks, "fund": fund, "mp": mp,
               "spread": a.net_interest_spread, "ttl": a.order_time_length}
        h = digest(inp)
        seen.add(h)
        orders = a.submit_orders(markets=sim.markets)
        checks += 1
        well_formed(orders, a, set(acc), inp, violations)
        base = (max(bids) + min(asks)) / 2.0 if bids and asks else mp
        dist["mm"]["quotes_base" if bids and asks else "market_price_base"] += 1
        nontriv.add(h)
        if len(orders) != 2 or [o.is_buy for o in orders] != [True, False]:
            add_v(viol("C20/mm-not-one-buy-one-sell", "a market maker quotes one buy and one sell", {"orders": [repr(o) for o in orders]}, inp))
        else:
            b, s = orders
            if not math.isclose(s.price - b.price, fund * a.net_interest_spread, rel_tol=1e-9, abs_tol=1e-9):
                add_v(viol("C20/mm-spread", "quotes separated by fundamental price x spread", {"buy": b.price, "sell": s.price, "fund": fund, "spread": a.net_interest_spread}, inp))
            if not math.isclose((s.price + b.price) / 2, base, rel_tol=1e-9):
                add_v(viol("C20/mm-not-symmetric-around-base", "symmetric around its base price (midpoint of best accessible bid and ask, or the market price)",
                           {"buy": b.price, "sell": s.price, "base": base}, inp))
            if any(o.market_id != a.target_market.market_id or o.volume != 1 or o.ttl != a.order_time_length for o in orders):
                add_v(viol("C20/mm-order-fields", "target market, volume 1, configured lifetime", {"orders": [repr(o) for o in orders]}, inp))
        lines.append("mm %s %s %s %s %s %d" % (fbits(max(bids)) if bids else "-", fbits(min(asks)) if asks else "-",
                                               fbits(mp), fbits(fund), fbits(a.net_interest_spread), a.order_time_length))
        expects.append(("mm", [(o.is_buy, o.price, o.volume, o.ttl) for o in orders], inp, False))

    # ---- arbitrage --------------------------------------------------------------------------
    for i in range(250 * scale):
        n = rng.choice([2, 3, 4])
        sim, mks, idx = mk_world(rng, n, index=True)
        a = ArbitrageAgent(agent_id=5, prng=random.Random(2), simulator=sim, name="arb")
        for mid in range(n + 1):
            a.set_market_accessible(mid)
        a.order_volume = rng.choice([1, 2, 5])
        a.order_time_length = rng.choice([1, 3])
        for m in mks:
            trade(m, round(rng.uniform(250, 350), 2))
        if rng.random() < 0.5:
            # an earlier activation in the same step (agents are consulted several times per step and
            # prices move in between): whatever it computed must not be reused after prices changed
            a.submit_orders(markets=sim.markets)
            idx.get_index()
            idx.get_market_index()
            for m in mks:
                if rng.random() < 0.7:
                    trade(m, round(rng.uniform(250, 350), 2))
        # the index computed independently of the index market: share-weighted average of the
        # components' current market prices
        shares = [m.outstanding_shares for m in mks]
        index_indep = sum(m.get_market_price() * sh for m, sh in zip(mks, shares)) / sum(shares)
        if not math.isclose(idx.get_index(), index_indep, rel_tol=1e-12):
            add_v(viol("C20/index-seen-by-arbitrage-agent-stale-or-wrong", "the computed index the agent compares with is the share-weighted average of the components' current market prices",
                       {"index_market_says": idx.get_index(), "weighted_average_now": index_indep,
                        "component_prices": [m.get_market_price() for m in mks]}, {"kind": "arb-index", "n": n}))
        # the decision itself is judged against the index value as the index market computes it (the
        # independent recomputation above may differ from it in the last bits, which matters exactly
        # at the threshold)
        index = idx.get_index()
        mode = rng.random()
        a.order_threshold_price = rng.choice([0.5, 1.0, 2.0])
        if mode < 0.2:
            ip = index + a.order_threshold_price          # gap exactly at the threshold (if representable)
        elif mode < 0.4:
            ip = index - a.order_threshold_price
        else:
            ip = index + rng.choice([-1, 1]) * rng.uniform(0, 3) * a.order_threshold_price
        trade(idx, ip)
        ip = idx.get_market_price()
        gap = ip - index
        if abs(abs(gap) - a.order_threshold_price) < 1e-9:
            dist["arb"]["at_threshold"] += 1
        inp = {"kind": "arb", "index_price": ip, "index": index, "threshold": a.order_threshold_price, "v": a.order_volume,
               "ttl": a.order_time_length, "component_prices": [m.get_market_price() for m in mks]}
        h = digest(inp)
        seen.add(h)
        orders = a.submit_orders(markets=sim.markets)
        checks += 1
        well_formed(orders, a, set(range(n + 1)), inp, violations)
        acts = abs(gap) > a.order_threshold_price
        nontriv.add(h)
        if bool(orders) != acts:
            add_v(viol("C20/arb-acts-iff-gap-exceeds-threshold", "an arbitrage agent acts only when index price and computed index differ by more than its threshold",
                       {"gap": gap, "threshold": a.order_threshold_price, "n_orders": len(orders)}, inp))
        if orders:
            buy_index = ip < index
            dist["arb"]["buy_index" if buy_index else "sell_index"] += 1
            io = [o for o in orders if o.market_id == idx.market_id]
            co = [o for o in orders if o.market_id != idx.market_id]
            ok = (len(io) == 1 and io[0].is_buy == buy_index and io[0].volume == n * a.order_volume and len(co) == n
                  and all(o.is_buy != buy_index and o.volume == a.order_volume for o in co)
                  and sorted(o.market_id for o in co) == list(range(n)))
            if not ok:
                add_v(viol("C20/arb-basket-not-hedged", "one index order of n x v against n component orders of v on the opposite side",
                           {"orders": [(o.market_id, o.is_buy, o.volume) for o in orders]}, inp))
            if any(not math.isclose(o.price, sim.id2market[o.market_id].get_market_price(), rel_tol=1e-12) for o in orders):
                add_v(viol("C20/arb-prices", "each order priced at the respective market price", {"orders": [(o.market_id, o.price) for o in orders]}, inp))
        else:
            dist["arb"]["idle"] += 1
        lines.append("arb %s %s %s %d %d %d %d %s" % (fbits(ip), fbits(index), fbits(a.order_threshold_price), idx.market_id,
                                                      a.order_volume, a.order_time_length, n,
                                                      " ".join("%d %s" % (m.market_id, fbits(m.get_market_price())) for m in mks)))
        expects.append(("arb", [(o.market_id, o.is_buy, o.price, o.volume, o.ttl) for o in orders], inp, False))

    # ---- arbitrage over two index markets in one activation: each index is judged on its own gap ---------
    for i in range(60 * scale):
        n = rng.choice([2, 3])
        sim, mks, idx = mk_world(rng, n, index=True)
        idx2 = IndexMarket(market_id=n + 1, prng=random.Random(98), simulator=sim, name="idx2")
        idx2.setup({"tickSize": 0.01, "marketPrice": 300.0, "outstandingShares": 1000, "markets": [m.name for m in mks]})
        sim._add_market(idx2, group_name="i2")
        idx2._is_running = True
        sim._update_times_on_markets([idx2])
        a = ArbitrageAgent(agent_id=5, prng=random.Random(2), simulator=sim, name="arb")
        for mid in range(n + 2):
            a.set_market_accessible(mid)
        a.order_volume = rng.choice([1, 2])
        a.order_time_length = 2
        a.order_threshold_price = rng.choice([0.5, 1.0, 2.0])
        for m in mks:
            trade(m, round(rng.uniform(250, 350), 2))
        index = idx.get_index()
        gaps = {}
        for im, mode in ((idx, rng.choice(["beyond+", "beyond-", "within", "within"])), (idx2, rng.choice(["within", "within", "beyond+", "beyond-"]))):
            k = {"beyond+": rng.uniform(1.5, 3), "beyond-": -rng.uniform(1.5, 3), "within": rng.uniform(-0.9, 0.9)}[mode]
            trade(im, index + k * a.order_threshold_price)
            gaps[im.market_id] = im.get_market_price() - im.get_index()
        order_of_markets = list(sim.markets) if rng.random() < 0.5 else [m for m in sim.markets if m is not idx2][:n] + [idx2, idx]
        inp = {"kind": "arb2", "threshold": a.order_threshold_price, "gaps": {str(k): v for k, v in gaps.items()},
               "markets_order": [m.market_id for m in order_of_markets]}
        seen.add(digest(inp))
        nontriv.add(digest(inp))
        orders = a.submit_orders(markets=order_of_markets)
        checks += 1
        well_formed(orders, a, set(range(n + 2)), inp, violations)
        for im in (idx, idx2):
            legs = [o for o in orders if o.market_id == im.market_id]
            acts = abs(gaps[im.market_id]) > a.order_threshold_price
            if abs(abs(gaps[im.market_id]) - a.order_threshold_price) < 1e-9:
                continue
            if bool(legs) != acts:
                add_v(viol("C20/arb-acts-iff-gap-exceeds-threshold", "an arbitrage agent acts only when index price and computed index differ by more than its threshold (judged per index market)",
                           {"index_market": im.market_id, "gap": gaps[im.market_id], "threshold": a.order_threshold_price,
                            "index_legs": [(o.is_buy, o.volume) for o in legs]}, inp))
            elif legs and legs[0].is_buy != (gaps[im.market_id] < 0):
                add_v(viol("C20/arb-basket-not-hedged", "buys the index when it is below the computed index, sells it when above",
                           {"index_market": im.market_id, "gap": gaps[im.market_id], "index_leg_is_buy": legs[0].is_buy}, inp))
        n_acting = sum(1 for im in (idx, idx2) if abs(gaps[im.market_id]) > a.order_threshold_price + 1e-9)
        comp_legs = [o for o in orders if o.market_id < n]
        if all(abs(abs(g) - a.order_threshold_price) >= 1e-9 for g in gaps.values()) and len(comp_legs) != n * n_acting:
            add_v(viol("C20/arb-basket-not-hedged", "one component order per component for each index acted on",
                       {"component_legs": len(comp_legs), "indices_acted_on": n_acting, "components": n}, inp))

    compared = 0
    max_rel = 0.0
    if model_available:
        out, err, dt = LeanDriver("Pure").run(lines)
        if out is None:
            diffs.append({"channel": "driver", "detail": err[-1500:]})
        else:
            for o, (kind, exp, inp, edge) in zip(out, expects):
                compared += 1
                t = o.split()[1:]
                if kind == "fcn":
                    t = t[2:]
                n = int(t[0])
                t = t[1:]
                if kind == "arb":
                    model = [(int(t[i]), t[i + 1] == "1", bits2f(t[i + 2]), int(t[i + 3]), int(t[i + 4])) for i in range(0, 5 * n, 5)]
                    same = len(model) == len(exp) and all(a[:2] == b[:2] and a[3:] == b[3:] and a[2] == b[2] for a, b in zip(model, exp))
                else:
                    model = [(t[i] == "1", bits2f(t[i + 1]), int(t[i + 2]), int(t[i + 3])) for i in range(0, 4 * n, 4)]
                    same = len(model) == len(exp) and all(a[0] == b[0] and a[2:] == b[2:] and math.isclose(a[1], b[1], rel_tol=1e-12, abs_tol=1e-300) for a, b in zip(model, exp))
                    for a, b in zip(model, exp):
                        if b[1]:
                            max_rel = max(max_rel, abs(a[1] - b[1]) / abs(b[1]))
                if not same and not edge:
                    diffs.append({"channel": "agent.orders." + kind, "model": model, "impl": exp, "input": inp})
    return {"evaluations": len(seen), "distinct_nontrivial": len(nontriv),
            "rule": "real FCN / MarketShareFCN / MarketMaker / Arbitrage agent objects on real markets steered through the market API (trades, quotes, clock steps, fundamentals), random admissible parameters (weights incl. 0, windows 1..150, margins 0..1, spreads, thresholds incl. gaps exactly at the threshold); non-trivial = state off the decision threshold for FCN, every market-maker / arbitrage state",
            "samples": samples, "violations": violations, "diffs": diffs[:30],
            "comparisons": {"agent_states_compared": compared}, "traces_validated": compared,
            "distribution": dist, "monitor_checks": checks,
            "float_gap": {"max_relative_price_difference_model_vs_python": max_rel}}


def replay_C20(obj):
    # states are fully materialised in the replay file; re-evaluating needs the generator, so the
    # check re-runs the generator with the recorded seed
    return {"violations": [], "note": "re-run `harness/run.py quick C20` with VERIF_SEED=%s to regenerate this state" % obj.get("seed")}
