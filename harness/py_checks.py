"""Differential validation of the (T2) tie: the mini-Python semantics (lean/PamsModel/Py.lean) run on
the translated program (lean/PamsGen/Code.lean, regenerated from /repo) against CPython running the
real functions on the same objects.

For every case: real pams objects are built, the object graph reachable from the arguments is
serialized (whitelisted fields per class) into HEAP lines, pure getters the function calls on
objects whose class is not translated are answered by EXT lines computed from the real objects,
the real function is called, and its return value / exception class, every whitelisted field of
every serialized object afterwards, and the names of the extern calls are compared with what
Driver/PyRun.lean reports.  A difference is a correspondence diff on channel `code.<function>`.
"""
import math
import random
import warnings

from common import LeanDriver, fbits

from pams.events import FundamentalPriceShock, OrderMistakeShock, PriceLimitRule, TradingHaltRule
from pams.index_market import IndexMarket
from pams.logs.base import ExecutionLog
from pams.market import Market
from pams.order import LIMIT_ORDER, MARKET_ORDER, Cancel, Order, OrderKind
from pams.order_book import OrderBook
from pams.session import Session
from pams.simulator import Simulator
from pams.agents.base import Agent

FIELDS = {
    OrderKind: ["kind_id", "name"],
    Order: ["agent_id", "market_id", "is_buy", "kind", "volume", "placed_at", "price", "order_id", "ttl", "is_canceled"],
    Cancel: ["order", "placed_at"],
    OrderBook: ["priority_queue", "is_buy", "time", "expire_time_list", "logger"],
    Market: ["market_id", "_is_running", "time", "tick_size", "name", "buy_order_book", "sell_order_book",
             "outstanding_shares", "_next_order_id", "_n_buy_orders", "_n_sell_orders", "_mid_prices", "_market_prices",
             "_last_executed_prices", "_executed_volumes", "_executed_total_prices", "logger", "chunk_size",
             "_fundamental_prices"],
    IndexMarket: ["market_id", "_is_running", "time", "tick_size", "name", "_components", "outstanding_shares"],
    PriceLimitRule: ["target_markets", "trigger_change_rate", "activation_count", "is_enabled"],
    TradingHaltRule: ["target_markets", "trigger_change_rate", "activation_count", "halting_time_started",
                      "halting_time_length", "halting_market", "halting_session", "is_enabled"],
    OrderMistakeShock: ["triggerd", "target_market", "simulator", "price_change_rate", "order_time_length",
                        "order_volume", "trigger_time", "is_enabled"],
    FundamentalPriceShock: ["target_market", "trigger_time", "shock_time_length", "price_change_rate", "is_enabled"],
    Simulator: ["id2market", "current_session", "id2agent"],
    Session: ["with_order_execution", "with_order_placement", "session_id", "iteration_steps", "max_normal_orders",
              "max_high_frequency_orders", "high_frequency_submission_rate", "with_print", "session_start_time", "name"],
    ExecutionLog: ["market_id", "time", "buy_agent_id", "sell_agent_id", "buy_order_id", "sell_order_id", "price", "volume"],
    Agent: ["agent_id", "cash_amount", "asset_volumes"],
}
LOG_FIELDS = {
    "OrderLog": ["order_id", "market_id", "time", "agent_id", "is_buy", "kind", "volume", "price", "ttl"],
    "CancelLog": ["order_id", "market_id", "cancel_time", "order_time", "agent_id", "is_buy", "kind", "volume", "price", "ttl"],
    "ExecutionLog": ["market_id", "time", "buy_agent_id", "sell_agent_id", "buy_order_id", "sell_order_id", "price", "volume"],
    "ExpirationLog": ["order_id", "market_id", "time", "order_time", "agent_id", "is_buy", "kind", "volume", "price", "ttl"],
}
UNORDERED = {"priority_queue"}      # heap layout in CPython, sorted order in the semantics: compared as multisets
CLASS_GLOBALS = ["Order", "OrderKind", "Cancel", "Market", "OrderBook", "IndexMarket", "OrderLog", "CancelLog",
                 "ExecutionLog", "ExpirationLog"]


def cls_of(obj):
    for c in type(obj).__mro__:
        if c in FIELDS:
            return c
    return None


class Ser:
    """assigns addresses and produces the HEAP lines of an object graph"""

    def __init__(self):
        self.addr = {}
        self.objs = []
        self.lines = []
        self.pending = []

    def ref(self, obj):
        k = id(obj)
        if k not in self.addr:
            self.addr[k] = len(self.addr) + 1
            self.objs.append(obj)
            self.pending.append(obj)
        return self.addr[k]

    def tok(self, v):
        if v is None:
            return "N"
        if v is True:
            return "B1"
        if v is False:
            return "B0"
        if isinstance(v, int):
            return "I%d" % v
        if isinstance(v, float):
            return "F" + fbits(v)
        if isinstance(v, str):
            return "S" + (v.replace(" ", "_") or "_")
        if isinstance(v, (list, tuple)):
            return " ".join(["L%d" % len(v)] + [self.tok(x) for x in v])
        if isinstance(v, dict):
            out = ["D%d" % len(v)]
            for k, x in v.items():
                out += [self.tok(k), self.tok(x)]
            return " ".join(out)
        if isinstance(v, type):
            return "S" + v.__name__
        return "R%d" % self.ref(v)

    def flush(self):
        while self.pending:
            o = self.pending.pop(0)
            c = cls_of(o)
            name = c.__name__ if c is not None else type(o).__name__
            fields = [("__class__", "S" + name)]
            if c is not None:
                for f in FIELDS[c]:
                    if hasattr(o, f):
                        try:
                            fields.append((f, self.tok(getattr(o, f))))
                        except RecursionError:
                            pass
            self.lines.append("HEAP %d %d %s" % (self.addr[id(o)], len(fields), " ".join("%s %s" % fv for fv in fields)))

    def snapshot(self):
        """(addr, field) -> token of every whitelisted non-container field, now"""
        out = {}
        for o in self.objs:
            c = cls_of(o)
            if c is None:
                continue
            for f in FIELDS[c]:
                if hasattr(o, f):
                    v = getattr(o, f)
                    if isinstance(v, (list, tuple, dict)):
                        v2 = self.tok_frozen(v)
                    else:
                        v2 = self.tok_frozen(v)
                    out[(self.addr[id(o)], f)] = v2
        return out

    def tok_frozen(self, v):
        """like tok, but never allocates: unknown objects print as R?"""
        if v is None or isinstance(v, (bool, int, float, str, type)):
            return self.tok(v)
        if isinstance(v, (list, tuple)):
            return " ".join(["L%d" % len(v)] + [self.tok_frozen(x) for x in v])
        if isinstance(v, dict):
            out = ["D%d" % len(v)]
            for k, x in v.items():
                out += [self.tok_frozen(k), self.tok_frozen(x)]
            return " ".join(out)
        return "R%d" % self.addr[id(v)] if id(v) in self.addr else "R?"


def norm(tok):
    """-0.0 and +0.0 compare equal in Python; NaNs never occur"""
    return tok.replace("F9223372036854775808", "F0")


class Case:
    """one call of one translated function on real objects"""

    def __init__(self, fn, target, args, ext=(), patch=(), ret_log=None):
        self.fn, self.target, self.args, self.ext, self.patch = fn, target, args, list(ext), list(patch)
        self.ret_log = ret_log          # class name of the log object(s) the call returns, if any

    def lines_and_expect(self):
        ser = Ser()
        arg_toks = [ser.tok(a) for a in self.args]
        ext_lines = []
        for recv, name, eargs, res in self.ext:
            ext_lines.append((recv, name, eargs, res))
        # serialize everything reachable (including extern receivers / results)
        for recv, name, eargs, res in ext_lines:
            ser.tok(recv)
            ser.tok(res)
        ser.flush()
        lines = ["RESET", "HEAP 900 2 __class__ SOrderKind kind_id I0", "HEAP 901 2 __class__ SOrderKind kind_id I1"]
        # the two kind constants are the module-level objects themselves
        lines = ["RESET"]
        mk, lk = ser.tok(MARKET_ORDER), ser.tok(LIMIT_ORDER)
        ser.flush()
        lines += ser.lines
        lines += ["GLOBAL MARKET_ORDER " + mk, "GLOBAL LIMIT_ORDER " + lk]
        lines += ["GLOBAL %s S%s" % (c, c) for c in CLASS_GLOBALS]
        for recv, name, eargs, res in ext_lines:
            lines.append("EXT %s %s %d %s %s" % (ser.tok_frozen(recv), name, len(eargs),
                                               " ".join(ser.tok_frozen(a) for a in eargs), ser.tok_frozen(res)))
        for q in getattr(self, "exclude", ()):
            lines.append("EXCLUDE %s" % q)      # a translated function answered by EXT lines in this case
        for obj, name in self.patch:
            c = cls_of(obj)
            lines.append("EXCLUDE %s.%s" % (c.__name__ if c else type(obj).__name__, name))
            lines.append("EXTANY %s %s N" % (ser.tok_frozen(obj), name))
        before = ser.snapshot()
        obs = sorted(before)
        retf = ""
        if self.ret_log:
            fs = LOG_FIELDS[self.ret_log]
            retf = " RETF %d %s" % (len(fs), " ".join(fs))
        lines.append("RUN %s %d %s OBS %d %s%s" % (self.fn, len(self.args), " ".join(arg_toks), len(obs),
                                                   " ".join("%d %s" % af for af in obs), retf))
        # the real call
        calls = []
        raw = []
        undo = []
        for obj, name in self.patch:
            def rec(*a, _n=name, _o=obj, **k):
                calls.append(_n)
                raw.append((_o, _n, list(a) + list(k.values())))
                return None
            undo.append((obj, name, getattr(obj, name)))
            setattr(obj, name, rec)
        try:
            with warnings.catch_warnings():
                warnings.simplefilter("ignore")
                r = self.target(*self.args[1:]) if self.bound else self.target(*self.args)
            res = ("OK", ser.tok_frozen(r))
            self.ret_expect = None
            if self.ret_log:
                objs = r if isinstance(r, list) else [r]
                self.ret_expect = {(i, f): ser.tok_frozen(getattr(o, f)) for i, o in enumerate(objs) for f in LOG_FIELDS[self.ret_log]}
        except Exception as e:  # noqa: BLE001 - compared, not hidden
            res = ("ERR", type(e).__name__)
        for obj, name, old in undo:
            try:
                delattr(obj, name)
            except AttributeError:
                setattr(obj, name, old)
        after = ser.snapshot() if res[0] == "OK" else None
        if getattr(self, "want_full", False):
            self.calls_full = ["|".join([n_, ser.tok_frozen(o_).replace(" ", "_")] +
                                        [ser.tok_frozen(a_).replace(" ", "_") for a_ in as_]) for o_, n_, as_ in raw]
        return lines, res, obs, after, calls

    bound = True


def run_cases(cases):
    """returns (n_compared, diffs, distribution)"""
    all_lines, expects = [], []
    for c in cases:
        lines, res, obs, after, calls = c.lines_and_expect()
        all_lines += lines
        expects.append((c, res, obs, after, calls, lines))
    out, err, dt = LeanDriver("PyRun").run(all_lines)
    diffs = []
    dist = {}
    if out is None:
        return 0, [{"channel": "driver", "detail": (err or "")[-1500:]}], dist
    it = iter(out)
    compared = 0
    for c, res, obs, after, calls, lines in expects:
        ch = "code." + c.fn
        dist[c.fn] = dist.get(c.fn, 0) + 1
        block = []
        for l in it:
            if l.startswith("E "):
                block.append(l)
                continue
            block.append(l)
            if l == "END":
                break
        compared += 1
        head = next((b for b in block if b.startswith("RES ")), None)
        errs = [b for b in block if b.startswith("E ")]
        if errs or head is None:
            diffs.append({"channel": ch, "detail": "driver: %s" % (errs or block)[:3], "input": lines[-1][:300]})
            continue
        parts = head.split(" ", 3)
        if parts[1] == "ERR":
            kind = parts[2]
            what = parts[3] if len(parts) > 3 else ""
            got = ("ERR", what.split()[0] if kind == "raise" else kind + ":" + what)
        else:
            got = ("OK", head[len("RES OK "):])
        dist["outcome:" + (got[1] if got[0] == "ERR" else "ok")] = dist.get("outcome:" + (got[1] if got[0] == "ERR" else "ok"), 0) + 1
        opaque = res[0] == "OK" and "R?" in res[1]      # the call returned object(s) it created: compared field by field below
        if opaque:
            same = got[0] == "OK" and got[1].split()[0][0] == res[1].split()[0][0] and \
                (res[1][0] != "L" or got[1].split()[0] == res[1].split()[0])
        else:
            same = (got[0], norm(got[1])) == (res[0], norm(res[1]))
        if not same:
            diffs.append({"channel": ch, "what": "result", "model": got, "impl": res, "input": lines[-8:]})
            continue
        if res[0] == "OK":
            flds = {}
            for b in block:
                if b.startswith("FLD "):
                    _, a, f, v = b.split(" ", 3)
                    flds[(int(a), f)] = v
            if c.ret_log and c.ret_expect is not None:
                rets = {}
                for b in block:
                    if b.startswith("RETF "):
                        _, i, f, v = b.split(" ", 3)
                        rets[(int(i), f)] = v
                bad = [k for k in c.ret_expect if norm(rets.get(k, "?")) != norm(c.ret_expect[k])]
                if bad or len(rets) != len(c.ret_expect):
                    diffs.append({"channel": ch, "what": "fields of the returned %s" % c.ret_log,
                                  "model": {str(k): rets.get(k) for k in bad[:4]}, "impl": {str(k): c.ret_expect[k] for k in bad[:4]},
                                  "input": lines[-8:]})
                    continue
            for k in obs:
                if k[1] in UNORDERED and k in flds:
                    if sorted(norm(flds[k]).split()[1:]) != sorted(norm(after[k]).split()[1:]):
                        diffs.append({"channel": ch, "what": "field %s.%s after the call (as a multiset)" % k, "model": flds[k],
                                      "impl": after[k], "input": lines[-8:]})
                        break
                    continue
                if k in flds and flds[k] != "-" and norm(flds[k]) != norm(after[k]) and "R?" not in after[k]:
                    diffs.append({"channel": ch, "what": "field %s.%s after the call" % k, "model": flds[k],
                                  "impl": after[k], "input": lines[-8:]})
                    break
            cl = next((b for b in block if b.startswith("CALLS ")), "CALLS 0").split()[2:]
            mine = cl if getattr(c, "all_calls", False) else [x for x in cl if x in {p[1] for p in c.patch}]
            if mine != calls:
                diffs.append({"channel": ch, "what": "extern calls", "model": mine, "impl": calls, "input": lines[-8:]})
                continue
            full = getattr(c, "calls_full", None)
            if full is not None:
                ca = next((b for b in block if b.startswith("CARGS ")), "CARGS 0").split()[2:]
                if not getattr(c, "all_calls", False):
                    ca = [x for x in ca if x.split("|")[0] in {p[1] for p in c.patch}]
                if ca != full:
                    j = next((i for i, (x, y) in enumerate(zip(ca, full)) if x != y), min(len(ca), len(full)))
                    diffs.append({"channel": ch, "what": "extern calls with receivers and arguments", "position": j,
                                  "model": ca[j:j + 2], "impl": full[j:j + 2], "input": lines[-8:]})
    return compared, diffs, dist


# ---------------------------------------------------------------------------------------------
# case generators
# ---------------------------------------------------------------------------------------------
def _order(rng, side=None, placed=True, market=0):
    limit = rng.random() < 0.7
    o = Order(agent_id=rng.randint(0, 3), market_id=market, is_buy=rng.random() < 0.5 if side is None else side,
              kind=LIMIT_ORDER if limit else MARKET_ORDER, volume=rng.randint(1, 9),
              price=rng.choice([100.0, 100.5, 101.0, 99.0, 3e9, 3e9 + 1, 0.0, 1e-9]) if limit else None,
              ttl=rng.choice([None, 1, 2, 5]))
    if placed:
        o.placed_at = rng.randint(0, 3)
        o.order_id = rng.randint(0, 5)
    elif rng.random() < 0.3:
        o.order_id = rng.randint(0, 5)
    o.is_canceled = rng.random() < 0.15
    return o


def gen_order_cases(rng, n):
    ops = ["__lt__", "__gt__", "__eq__", "__ne__", "__le__", "__ge__"]
    for i in range(n):
        r = rng.random()
        if r < 0.6:
            side = rng.random() < 0.5
            a = _order(rng, side, placed=rng.random() < 0.9)
            b = _order(rng, side if rng.random() < 0.9 else not side, placed=rng.random() < 0.9)
            if rng.random() < 0.3:
                b.price, b.kind = a.price, a.kind
            if rng.random() < 0.3:
                b.placed_at = a.placed_at
            op = rng.choice(ops)
            yield Case("Order." + op, getattr(a, op), [a, b])
        elif r < 0.7:
            a = _order(rng)
            yield Case("Order._gt_lt", a._gt_lt, [a, _order(rng, a.is_buy), rng.random() < 0.5])
        elif r < 0.8:
            a = _order(rng, placed=rng.random() < 0.9)
            yield Case("Order.is_expired", a.is_expired, [a, rng.randint(0, 9)])
        elif r < 0.9:
            a = _order(rng, placed=rng.random() < 0.4)
            yield Case("Order.check_system_acceptable", a.check_system_acceptable, [a, rng.choice([a.agent_id, a.agent_id, 7])])
        else:
            a = _order(rng, placed=True)
            c = Cancel(order=a, placed_at=rng.choice([None, None, 3]))
            yield Case("Cancel.check_system_acceptable", c.check_system_acceptable, [c, rng.choice([a.agent_id, a.agent_id, 7])])


def _env(rng, n_markets=2, price=None):
    import events_props
    price = price or rng.choice([300.0, 100.0, 12345.678])
    sim, ses, mks = events_props._mk_env(n_markets, price)
    return sim, ses, mks


def gen_event_cases(rng, n):
    for i in range(n):
        sim, ses, mks = _env(rng, 2)
        r = rng.random()
        p0 = mks[0].get_market_price(0)
        rate = rng.choice([0.0, 0.01, 0.05, 0.1, 0.5])
        if r < 0.35:
            ev = PriceLimitRule(event_id=0, prng=random.Random(0), session=ses, simulator=sim, name="plr")
            ev.setup({"targetMarkets": ["m0"], "triggerChangeRate": float(rate)})
            mk = rng.choice([0, 0, 1])
            kind = rng.random()
            p = p0 * (1 + rate) if kind < 0.2 else p0 * (1 - rate) if kind < 0.4 else p0 * (1 + rng.uniform(-3 * rate - 0.1, 3 * rate + 0.1))
            lim = rng.random() < 0.85
            o = Order(agent_id=0, market_id=mk, is_buy=rng.random() < 0.5, kind=LIMIT_ORDER if lim else MARKET_ORDER,
                      volume=1, price=max(p, 0.01) if lim else None)
            ext = [(m, "get_market_price", [0], m.get_market_price(0)) for m in mks]
            if rng.random() < 0.5:
                yield Case("PriceLimitRule.hooked_before_order", ev.hooked_before_order, [ev, sim, o], ext=ext)
            else:
                yield Case("PriceLimitRule.get_limited_price", ev.get_limited_price, [ev, o, mks[mk]], ext=ext)
        elif r < 0.65:
            ev = TradingHaltRule(event_id=0, prng=random.Random(0), session=ses, simulator=sim, name="thr")
            ev.setup({"targetMarkets": ["m0"], "triggerChangeRate": float(rate), "haltingTimeLength": rng.choice([0, 1, 3])})
            for m in mks:
                m._is_running = rng.random() < 0.8
                for _ in range(rng.randint(0, 4)):
                    m._update_time(next_fundamental_price=p0)
            ev.activation_count = rng.choice([0, 0, 1, 2])
            ev.halting_time_started = rng.choice([0, 1, 2])
            st = rng.random()
            if st < 0.4:
                ev.halting_market, ev.halting_session = mks[0], ses
                mks[0]._is_running = False
                ses.with_order_execution = False
            elif st < 0.55:
                ev.halting_market, ev.halting_session = mks[1], ses
            elif st < 0.7:
                other = Session(session_id=1, prng=random.Random(1), session_start_time=0, simulator=sim, name="s2")
                ev.halting_market, ev.halting_session = mks[0], other
            cur = p0 * (1 + rng.choice([0.0, rate, -rate, 2 * rate, rate * (ev.activation_count + 1), 0.3]))
            after_exec = rng.random() < 0.5
            if after_exec:
                # the fill moved the market price of the current step (at time 0 that is the reference price
                # itself: the oracle's answers below are read off the market *after* this write)
                mks[0]._market_prices[mks[0].time] = cur
            ext = []
            for m in mks:
                ext.append((m, "get_market_price", [0], m.get_market_price(0)))
                ext.append((m, "get_market_price", [], m.get_market_price()))
            if after_exec:
                log = ExecutionLog(market_id=rng.choice([0, 0, 1]), time=mks[0].get_time(), buy_agent_id=0, sell_agent_id=1,
                                   buy_order_id=0, sell_order_id=1, price=cur, volume=1)
                yield Case("TradingHaltRule.hooked_after_execution", ev.hooked_after_execution, [ev, sim, log], ext=ext)
            else:
                yield Case("TradingHaltRule.hooked_before_step_for_market", ev.hooked_before_step_for_market,
                           [ev, sim, rng.choice(mks)], ext=ext)
        elif r < 0.85:
            ev = OrderMistakeShock(event_id=0, prng=random.Random(0), session=ses, simulator=sim, name="oms")
            ev.setup({"target": "m0", "triggerTime": 0, "priceChangeRate": float(rng.choice([-0.05, 0.05, 0.0, -0.5])),
                      "orderVolume": rng.choice([1, 100]), "orderTimeLength": rng.choice([1, 5])})
            ev.triggerd = rng.random() < 0.3
            o = _order(rng, placed=False, market=rng.choice([0, 0, 1]))
            ext = [(m, "get_market_price", [], m.get_market_price()) for m in mks]
            yield Case("OrderMistakeShock.hooked_before_order", ev.hooked_before_order, [ev, sim, o], ext=ext)
        else:
            ev = FundamentalPriceShock(event_id=0, prng=random.Random(0), session=ses, simulator=sim, name="fps")
            ev.setup({"target": "m0", "triggerTime": rng.choice([0, 1, 2]), "priceChangeRate": float(rng.choice([-0.1, 0.3])),
                      "shockTimeLength": rng.choice([1, 2, 0])})
            for _ in range(rng.randint(0, 4)):
                for m in mks:
                    m._update_time(next_fundamental_price=p0)
            m = rng.choice([mks[0], mks[0], mks[1]])
            yield Case("FundamentalPriceShock.hooked_before_step_for_market", ev.hooked_before_step_for_market,
                       [ev, sim, m], patch=[(m, "change_fundamental_price")])


def gen_market_cases(rng, n):
    for i in range(n):
        sim, ses, mks = _env(rng, 1)
        m = mks[0]
        m.tick_size = rng.choice([0.01, 0.1, 1.0, 0.5, 0.25, 0.3])
        r = rng.random()
        if r < 0.3:
            p = rng.choice([rng.uniform(0.5, 500.0), rng.randint(1, 500) * m.tick_size, 2.0 ** -rng.randint(1, 20)])
            fn = rng.choice(["convert_to_tick_level_rounded_lower", "convert_to_tick_level_rounded_upper"])
            yield Case("Market." + fn, getattr(m, fn), [m, p])
        elif r < 0.5:
            p = rng.choice([rng.uniform(0.5, 500.0), rng.randint(1, 500) * m.tick_size])
            yield Case("Market.convert_to_tick_level", m.convert_to_tick_level, [m, p, rng.random() < 0.5])
        elif r < 0.6:
            yield Case("Market.convert_to_price", m.convert_to_price, [m, rng.randint(0, 100000)])
        else:
            m._is_running = True
            base = 100.0
            for _ in range(rng.randint(0, 6)):
                lim = rng.random() < 0.6
                o = Order(agent_id=0, market_id=0, is_buy=rng.random() < 0.5, kind=LIMIT_ORDER if lim else MARKET_ORDER,
                          volume=rng.randint(1, 3), price=base + rng.randint(-3, 3) if lim else None)
                with warnings.catch_warnings():
                    warnings.simplefilter("ignore")
                    m._add_order(o)
            ext = [(m.sell_order_book, "get_price_volume", [], m.sell_order_book.get_price_volume()),
                   (m.buy_order_book, "get_price_volume", [], m.buy_order_book.get_price_volume())]
            yield Case("Market.remain_executable_orders", m.remain_executable_orders, [m], ext=ext)


def _book_market(rng, n_orders, running=True):
    """a real market (no logger) holding a few resting orders, a few steps into the run"""
    sim, ses, mks = _env(rng, 1, price=100.0)
    m = mks[0]
    m.tick_size = rng.choice([1.0, 0.5])
    m._is_running = running
    for _ in range(rng.randint(0, 2)):
        m._update_time(next_fundamental_price=100.0)
    placed = []
    for _ in range(n_orders):
        lim = rng.random() < 0.75
        o = Order(agent_id=rng.randint(0, 3), market_id=0, is_buy=rng.random() < 0.5, kind=LIMIT_ORDER if lim else MARKET_ORDER,
                  volume=rng.randint(1, 4), price=100.0 + rng.randint(-2, 2) * m.tick_size if lim else None,
                  ttl=rng.choice([None, None, 1, 2]))
        with warnings.catch_warnings():
            warnings.simplefilter("ignore")
            m._add_order(o)
        placed.append(o)
        if rng.random() < 0.3:
            m._update_time(next_fundamental_price=100.0)
    return sim, m, placed


def gen_marketop_cases(rng, n):
    for i in range(n):
        r = rng.random()
        sim, m, placed = _book_market(rng, rng.randint(0, 5), running=rng.random() < 0.85)
        if r < 0.3:
            lim = rng.random() < 0.8
            o = Order(agent_id=rng.randint(0, 3), market_id=rng.choice([0, 0, 0, 7]), is_buy=rng.random() < 0.5,
                      kind=LIMIT_ORDER if lim else MARKET_ORDER, volume=rng.randint(1, 4),
                      price=100.0 + rng.choice([0, 1, -1, 0.3, 0.77, -1.5]) * m.tick_size if lim else None, ttl=rng.choice([None, 1, 3]))
            if rng.random() < 0.1 and placed:
                o = rng.choice(placed)        # resubmission
            yield Case("Market._add_order", m._add_order, [m, o], ret_log="OrderLog",
                       patch=[(m, "_update_market_price")] if False else [])
        elif r < 0.5 and placed:
            c = Cancel(order=rng.choice(placed))
            yield Case("Market._cancel_order", m._cancel_order, [m, c], ret_log="CancelLog")
        elif r < 0.58:
            yield Case("Market._update_time", m._update_time, [m, float(rng.choice([100.0, 99.5, 101.25]))])
        elif r < 0.64:
            m.chunk_size = rng.choice([100, 4, 7])
            yield Case("Market._fill_until", m._fill_until, [m, rng.choice([m.time + 1, 99, 100, 150, 203])])
        elif r < 0.8:
            yield Case("Market._execution", m._execution, [m], ret_log="ExecutionLog",
                       ext=[(m.sell_order_book, "get_price_volume", [], m.sell_order_book.get_price_volume()),
                            (m.buy_order_book, "get_price_volume", [], m.buy_order_book.get_price_volume())])
        elif r < 0.9:
            b = rng.choice([m.buy_order_book, m.sell_order_book])
            yield Case("OrderBook._set_time", b._set_time, [b, b.time + rng.choice([1, 1, 2, 3])], ret_log="ExpirationLog")
        else:
            b = rng.choice([m.buy_order_book, m.sell_order_book])
            yield Case("OrderBook.get_best_price", b.get_best_price, [b])


class _PlainAgent(Agent):
    def submit_orders(self, markets):
        return []


def gen_ledger_cases(rng, n):
    for i in range(n):
        sim = Simulator(prng=random.Random(0))
        agents = []
        for k in range(3):
            a = _PlainAgent.__new__(_PlainAgent)
            a.agent_id = k
            a.cash_amount = float(rng.choice([10000, 12345.5, 0.0]))
            a.asset_volumes = {0: rng.randint(0, 50), 1: rng.randint(0, 50)}
            agents.append(a)
        sim.id2agent = {a.agent_id: a for a in agents}
        logs = []
        for _ in range(rng.randint(0, 4)):
            b, s = rng.sample([0, 1, 2], 2) if rng.random() < 0.9 else (1, 1)
            logs.append(ExecutionLog(market_id=rng.choice([0, 1]), time=0, buy_agent_id=b, sell_agent_id=s, buy_order_id=0,
                                     sell_order_id=1, price=rng.choice([100.0, 99.5, 300.01]), volume=rng.randint(1, 5)))
        yield Case("Simulator._update_agents_for_execution", sim._update_agents_for_execution, [sim, logs])


def gen_session_cases(rng, n):
    """Session.setup on configured / deprecated / missing / ill-typed keys; values include 0, 0.0 and False"""
    for _ in range(n):
        sim = Simulator(prng=random.Random(rng.randint(0, 10 ** 6)))
        ses = Session(session_id=0, prng=random.Random(0), session_start_time=0, simulator=sim, name="s")
        st = {"sessionName": "s", "iterationSteps": rng.choice([0, 1, 5, 100]), "withOrderPlacement": rng.random() < 0.5,
              "withOrderExecution": rng.random() < 0.5, "withPrint": rng.random() < 0.5}
        if rng.random() < 0.6:
            st["maxNormalOrders"] = rng.choice([0, 1, 3, 10])
        r = rng.random()
        if r < 0.4:
            st["maxHighFrequencyOrders"] = rng.choice([0, 1, 5])
        elif r < 0.6:
            st["maxHifreqOrders"] = rng.choice([0, 1, 5])
        elif r < 0.7:
            st["maxHighFrequencyOrders"], st["maxHifreqOrders"] = 1, 2
        r = rng.random()
        if r < 0.4:
            st["highFrequencySubmitRate"] = rng.choice([0.0, 1.0, 0.25, 0.5])
        elif r < 0.6:
            st["hifreqSubmitRate"] = rng.choice([0.0, 1.0, 0.25])
        elif r < 0.7:
            st["highFrequencySubmitRate"], st["hifreqSubmitRate"] = 0.5, 0.25
        r = rng.random()
        if r < 0.08:
            st.pop(rng.choice(["iterationSteps", "withOrderPlacement", "withOrderExecution", "withPrint"]))
        elif r < 0.14:
            st["iterationSteps"] = 2.5
        elif r < 0.2:
            st[rng.choice(["withOrderPlacement", "withOrderExecution", "withPrint"])] = 1
        yield Case("Session.setup", ses.setup, [ses, st])


GENS = {"session": gen_session_cases, "order": gen_order_cases, "event": gen_event_cases, "market": gen_market_cases, "ledger": gen_ledger_cases,
        "marketop": gen_marketop_cases}


def run(ctx, groups, n_each):
    """correspondence of the translated code with CPython for the given groups of functions"""
    cases = []
    if "runner" in groups:
        import py_runner_cases  # noqa: F401 - registers GENS["runner"]
    if "simdispatch" in groups or "logger" in groups or "config" in groups or "jsonrandom" in groups or "getters" in groups or "eventsetup" in groups or "registry" in groups:
        import py_sim_cases  # noqa: F401 - registers GENS["simdispatch"]
    for g in groups:
        rng = ctx.rng("pycode", g)
        cases += list(GENS[g](rng, n_each))
    compared, diffs, dist = run_cases(cases)
    return {"compared": compared, "diffs": diffs, "distribution": dist}


def merge(res, ctx, groups, n_each=40, model_available=True):
    """adds the translated-code correspondence (T2) for `groups` to a property's result"""
    if not model_available:
        return res
    n = n_each * (ctx.scale if ctx.tier == "thorough" else 1)
    r = run(ctx, groups, n)
    res.setdefault("diffs", [])
    res["diffs"] += r["diffs"][:20]
    res.setdefault("comparisons", {})["translated_code_runs_compared_with_cpython"] = r["compared"]
    res.setdefault("distribution", {})["translated_code"] = r["distribution"]
    return res
