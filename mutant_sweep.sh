#!/bin/bash
# re-runs the calibration table of DESIGN §9: every mutant against its property (quick tier)
cd /verif
declare -A T=( [m01]=C01 [n01]=C01 [m05]=C02 [m06]=C02 [n04]=C03 [n28]=C04 [n07]=C05 [m29]=C06 [n23]=C07 [x_hash]=C07
  [m15]=C08 [m16]=C08 [n09]=C08 [m19]=C09 [n11]=C09 [m20]=C11 [m21]=C11 [n24]=C11 [n13]=C12 [x_fund1]=C12 [x_fund2]=C12
  [m24]=C13 [n14]=C13 [n15]=C14 [n27]=C15 [n16]=C16 [n18]=C18 [x_ext]=C18 [n25]=C19 [m33]=C20 [n20]=C20 )
for m in "${!T[@]}"; do
  p=${T[$m]}
  git -C /repo apply /verif/mutants/$m.diff || { echo "$m: does not apply"; continue; }
  OUT=$(timeout 1500 /venv/bin/python harness/run.py quick $p 2>&1 | grep -E "VIOLATION|quick seed" | head -3)
  git -C /repo checkout -- .
  R="–"; echo "$OUT" | grep -q "no-failing-input-found" && R="N"; echo "$OUT" | grep "VIOLATION" | grep -qv "no-failing-input-found" && R="F"
  echo "$m $p $R"
done | sort
# the equivalent control must stay silent on every market-level property
git -C /repo apply /verif/mutants/ctrl_equiv.diff
for p in C01 C02 C03 C04 C08; do
  OUT=$(timeout 1500 /venv/bin/python harness/run.py quick $p 2>&1 | grep -E "VIOLATION|quick seed" | head -2)
  echo "ctrl_equiv $p $(echo "$OUT" | grep -q VIOLATION && echo ALARM || echo silent)"
done
git -C /repo checkout -- .
/venv/bin/python harness/extract.py > /dev/null
