#!/bin/bash
# runs every check's quick (or thorough) command in parallel; prints one summary line per property
TIER=${1:-quick}
mkdir -p /tmp/verif_logs
ls harness/props/C*.py | sed 's/.*\///; s/\.py//' | xargs -P ${2:-6} -I{} sh -c "/venv/bin/python harness/run.py $TIER {} > /tmp/verif_logs/{}.$TIER.log 2>&1; echo \"{} exit=\$? \$(tail -1 /tmp/verif_logs/{}.$TIER.log)\""
