#!/bin/bash
# development tool (not a registered check): needs a scratch copy of /verif at /tmp/verif_eval (rsync -a /verif/ /tmp/verif_eval/ --exclude .git) and the worktree /tmp/wt_<id> holding the change
# usage: seed_eval2.sh <id> [extra props...] — id like C03d; uses the worktree /tmp/wt_<id> through PAMS_REPO (no patching of /repo)
ID=$1; shift
P=${ID:0:3}
WT=/tmp/wt_$ID
D=/verif/seeded/$ID
mkdir -p $D
cp $WT/_seed/patch.diff $WT/_seed/demo.py $WT/_seed/notes.md $D/ 2>/dev/null
cd $WT
# make sure the change is applied exactly as patch.diff says
git checkout -q -- pams; git apply _seed/patch.diff || { echo "$ID: patch does not apply"; exit 3; }
PYTHONPATH=$WT /venv/bin/python _seed/demo.py > $D/demo_with_change.out 2>&1; A=$?
git apply -R _seed/patch.diff
PYTHONPATH=$WT /venv/bin/python _seed/demo.py > $D/demo_without_change.out 2>&1; B=$?
git apply _seed/patch.diff
T=$(PYTHONPATH=$WT /venv/bin/python -m pytest -q -p no:cacheprovider --timeout=900 tests/pams 2>&1 | tail -1)
echo "$ID demo with change exit=$A, without exit=$B; tests: $T"
RES=""
for prop in $P "$@"; do
  OUT=$(cd /tmp/verif_eval && PAMS_REPO=$WT timeout 1500 /venv/bin/python harness/run.py quick $prop 2>&1 | grep -E "VIOLATION|KNOWN|quick seed" | head -6)
  echo "$OUT"
  RES="$RES\n[$prop]\n$OUT"
done
python3 - "$ID" "$A" "$B" "$T" "$RES" <<'PY'
import json,sys
pid,a,b,t,res=sys.argv[1:6]
res=res.replace("\\n","\n")
r="–"
first=res.split("\n[")[1] if "\n[" in res else res
if "no-failing-input-found" in first: r="N"
if any("VIOLATION" in l and "no-failing-input-found" not in l for l in first.splitlines()): r="F"
meta={"property":pid[:3],"demo_exit_with_change":int(a),"demo_exit_without_change":int(b),"existing_tests":t,
      "checks_run":res,"first_quick_result":r,
      "what_i_ran":"seed_eval2.sh: demo.py in the scratch worktree with and without the change, pytest tests/pams there with the change, then harness/run.py quick <prop> with PAMS_REPO pointing at the worktree holding the change (equivalent to git -C /repo apply / checkout, without touching /repo while other work was running)"}
try:
    meta["needs_to_manifest"]=open('/verif/seeded/%s/notes.md'%pid).read()[:1500]
except Exception: pass
json.dump(meta,open('/verif/seeded/%s/meta.json'%pid,'w'),indent=1)
print(pid,"first result:",r)
PY
