#!/bin/bash
# runs all quick checks for several seeds on the current tree; prints only non-OK lines
for s in "$@"; do
  VERIF_SEED=$s ./run_all.sh quick 6 2>&1 | grep -v "exit=0" | sed "s/^/seed=$s /"
done
echo "sweep done: seeds $@"
